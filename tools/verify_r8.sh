#!/bin/bash
cd /verif
export OMP_NUM_THREADS=1
v() { d=$1; shift; echo "##### $d"; tools/verify_seed.sh seeded/$d "$@" 2>&1 | grep -E "demo:|passed|failed"; }
v A8_C01 test/unit/metrics
v A8_C02 test/unit/metrics
v A8_C11 test/unit/metrics
v A8_C18 test/unit/metrics
v D8_C03 test/unit/metrics
v D8_C14 test/unit/metrics
v D8_C12 test/unit/utils test/unit/postprocessing
v D8_C20 test/unit/postprocessing
v B8_C04 test/unit/postprocessing
v B8_C05 test/unit/postprocessing
v B8_C10 test/unit/postprocessing
v B8_C13 test/unit/utils test/unit/postprocessing
v E8_C15 test/unit/preprocessing
v E8_C19 test/unit/preprocessing
v E8_C16 test/unit/adversarial
v E8_C17 test/unit/adversarial
v C8_C06 test/unit/reductions/moments test/unit/reductions/grid_search
v C8_C07 test/unit/reductions/moments test/unit/reductions/grid_search
v C8_C09 test/unit/reductions/grid_search
v C8_C08 test/unit/reductions/exponentiated_gradient
# seeds rebased onto the HEAD with the D24 repair
v B2_C05 test/unit/postprocessing
v B4_C04 test/unit/postprocessing
v B4_C05 test/unit/postprocessing
v B6_C05 test/unit/postprocessing
