#!/bin/bash
# Confirm a seeded change: applies in a scratch worktree of /repo, demo fails with it and passes without,
# the named existing tests still pass with it.   usage: verify_seed.sh <dir with patch.diff demo.py> <pytest paths...>
D=$(realpath "$1"); shift
W=$(mktemp -d /tmp/vseed_XXXX); rmdir "$W"
git -C /repo worktree add -q --detach "$W" HEAD || exit 2
trap 'git -C /repo worktree remove --force "$W"' EXIT
cd "$W"
PYTHONPATH="$W" /venv/bin/python "$D/demo.py" >/dev/null 2>&1; clean=$?
git apply "$D/patch.diff" || { echo "PATCH DOES NOT APPLY"; exit 2; }
PYTHONPATH="$W" /venv/bin/python "$D/demo.py" > "$W/.demo.out" 2>&1; broken=$?
echo "demo: clean exit=$clean patched exit=$broken"; tail -3 "$W/.demo.out"
if [ $# -gt 0 ]; then
  PYTHONPATH="$W" /venv/bin/python -m pytest -q -p no:cacheprovider --timeout=900 --continue-on-collection-errors "$@" 2>&1 | tail -4
fi
