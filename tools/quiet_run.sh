#!/bin/bash
# Run every registered quick check at several seeds on the unchanged tree; print exit codes (all must be 0).
cd "$(dirname "$0")/.."
SEEDS=${SEEDS:-"1 2 3 4 5"}
PROPS=${PROPS:-$(python3 -c "import json;print(' '.join(c['property_id'] for c in json.load(open('MANIFEST.json'))['checks']))")}
for s in $SEEDS; do for p in $PROPS; do
  t0=$(date +%s); out=$(VERIF_SEED=$s ./vfcheck $p --tier ${TIER:-quick} --no-evidence 2>&1); code=$?; t1=$(date +%s)
  echo "seed=$s $p exit=$code wall=$((t1-t0))s $(echo "$out" | grep -E '^VIOLATION|HARNESS|VACUOUS|INCONCLUSIVE' | head -2 | cut -c1-200)"
done; done
