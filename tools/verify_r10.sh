#!/bin/bash
cd /verif
export OMP_NUM_THREADS=1
v() { d=$1; shift; echo "##### $d"; tools/verify_seed.sh seeded/$d "$@" 2>&1 | grep -E "demo:|passed|failed"; }
v A10_C01 test/unit/metrics
v A10_C02 test/unit/metrics
v A10_C11 test/unit/metrics
v A10_C18 test/unit/metrics
v D10_C03 test/unit/metrics
v D10_C12 test/unit/metrics
v D10_C14 test/unit/metrics
v D10_C20 test/unit/reductions/moments test/unit/reductions/grid_search
v B10_C04 test/unit/postprocessing
v B10_C05 test/unit/postprocessing
v B10_C10 test/unit/postprocessing
v B10_C13 test/unit/utils test/unit/postprocessing
v E10_C15 test/unit/preprocessing
v E10_C16 test/unit/adversarial
v E10_C17 test/unit/adversarial
v E10_C19 test/unit/postprocessing
v C10_C06 test/unit/reductions/moments test/unit/reductions/grid_search
v C10_C07 test/unit/reductions/moments test/unit/reductions/grid_search
v C10_C09 test/unit/reductions/grid_search
v C10_C08 test/unit/reductions/exponentiated_gradient
