#!/bin/bash
# Run the repository's own suite (baseline command from /root/.vp/BASELINE.json) with the
# verification guard OFF and compare against BASELINE.stable_pass.
# usage: tools/run_baseline.sh [repo_dir] [junit_out]
REPO=${1:-/repo}
OUT=${2:-$(mktemp -u /tmp/vf_baseline_XXXX.xml)}
unset FAIRLEARN_VERIF
cd "$REPO" || exit 2
PYTHONPATH="$REPO" /venv/bin/python -m pytest -ra -q -p no:cacheprovider --timeout=900 \
    --continue-on-collection-errors --junitxml="$OUT" > "${OUT%.xml}.log" 2>&1
/venv/bin/python - "$OUT" <<'PY'
import json, sys, xml.etree.ElementTree as ET
b = json.load(open('/root/.vp/BASELINE.json'))
root = ET.parse(sys.argv[1]).getroot()
passed, failed = set(), set()
for tc in root.iter('testcase'):
    tid = (tc.get('classname') or '') + '::' + (tc.get('name') or '')
    if tc.find('failure') is not None or tc.find('error') is not None:
        failed.add(tid)
    elif tc.find('skipped') is None:
        passed.add(tid)
passed -= failed
stable = set(b['stable_pass'])
missing = sorted(stable - passed)
newfail = sorted(failed - set(b['always_fail']) - set(b['flaky']))
print(f"passed={len(passed)} failed={len(failed)} stable={len(stable)} stable_not_passed={len(missing)} new_failures={len(newfail)}")
for m in missing[:40]:
    print("  MISSING", m)
for m in newfail[:40]:
    print("  NEWFAIL", m)
sys.exit(0 if not missing else 1)
PY
