#!/usr/bin/env python3
"""Regenerate MANIFEST.json from the per-property table below (keeps the file valid at all times)."""
import json, os, sys

HERE = os.path.dirname(os.path.dirname(os.path.abspath(__file__)))
CHECKS = json.load(open(os.path.join(HERE, "tools", "checks.json")))
props = [json.loads(l)["id"] for l in open(os.path.join(HERE, "properties.jsonl"))]

checks = []
for pid in props:
    c = CHECKS["checks"].get(pid)
    if not c:
        continue
    checks.append({
        "property_id": pid,
        "quick_cmd": f"./vfcheck {pid} --tier quick",
        "thorough_cmd": f"./vfcheck {pid} --tier thorough",
        "evidence_file": f"evidence/{pid}.json",
        "replay_cmd_template": f"./vfcheck {pid} --replay {{path}}",
        "engine": c.get("engine", "hypothesis"),
        "level_claimed": {"category": c["category"], "text": c["text"], "design_ref": c.get("design_ref", f"DESIGN.md section 4 ({pid})")},
        "level_note": c["note"],
        "technique": c["technique"],
    })
claimed = {c["property_id"] for c in checks}
na = [{"property_id": p, "reason": CHECKS["not_applicable"].get(p, "check not built yet in this session; no claim is made")} for p in props if p not in claimed]
manifest = {
    "version": 1,
    "setup_cmd": "bash tools/setup.sh",
    "hooks": {
        "guard": "FAIRLEARN_VERIF",
        "enable": "none needed: every observable is public API; vfcheck exports FAIRLEARN_VERIF=1 but the repository contains no guarded code",
        "baseline_off_cmd": "bash tools/run_baseline.sh /repo",
        "source_commits": [],
        "add_only": True,
    },
    "engines": CHECKS["engines"],
    "checks": checks,
    "notes": CHECKS["notes"],
    "not_applicable": na,
}
json.dump(manifest, open(os.path.join(HERE, "MANIFEST.json"), "w"), indent=1)
print("checks:", sorted(claimed), "not claimed:", [x["property_id"] for x in na])
