#!/bin/bash
# Offline setup: make sure hypothesis is importable in /venv and atheris in /verif/.deps.
cd "$(dirname "$0")/.." || exit 1
/venv/bin/python -c "import hypothesis" 2>/dev/null || \
  /venv/bin/pip install --no-index --find-links /opt/veriftools/wheels hypothesis || exit 1
if ! PYTHONPATH=.deps /venv/bin/python -c "import atheris" 2>/dev/null; then
  /venv/bin/pip install --no-index --find-links /opt/veriftools/wheels --target .deps atheris >/dev/null 2>&1 || \
    echo "note: atheris not installable; the C13 fuzz sub-check falls back to Hypothesis only"
fi
/venv/bin/python -c "import hypothesis, fairlearn; print('setup ok', hypothesis.__version__)"
