#!/bin/bash
cd /verif
export OMP_NUM_THREADS=1
v() { d=$1; shift; echo "##### $d"; tools/verify_seed.sh seeded/$d "$@" 2>&1 | grep -E "demo:|passed|failed"; }
v A7_C01 test/unit/metrics
v A7_C02 test/unit/metrics
v A7_C11 test/unit/metrics
v A7_C18 test/unit/metrics
v D7_C03 test/unit/metrics
v D7_C14 test/unit/metrics test/unit/utils
v D7_C12 test/unit/postprocessing
v D7_C20 test/unit/postprocessing
v B7_C04 test/unit/postprocessing
v B7_C05 test/unit/postprocessing
v B7_C10 test/unit/postprocessing
v B7_C13 test/unit/utils test/unit/postprocessing
v E7_C15 test/unit/preprocessing
v E7_C19 test/unit/postprocessing
v E7_C16 test/unit/adversarial
v E7_C17 test/unit/adversarial
v C7_C06 test/unit/reductions/moments test/unit/reductions/grid_search
v C7_C07 test/unit/reductions/moments test/unit/reductions/grid_search
v C7_C09 test/unit/reductions/grid_search
v C7_C08 test/unit/reductions/exponentiated_gradient
# seeds rebased onto the HEAD with the D22/D23 repairs: demo + tests again
v A4_C03 test/unit/metrics
v A4_C14 test/unit/metrics
v A6_C03 test/unit/metrics
v D3_C14 test/unit/metrics
v D2_C11 test/unit/metrics
v D4_C11 test/unit/metrics
v D5_C14 test/unit/metrics
v C2_C07 test/unit/reductions/moments test/unit/reductions/grid_search
v C5_C07 test/unit/reductions/moments test/unit/reductions/grid_search
