#!/usr/bin/env python3
"""Record in seeded/<name>/meta.json what was confirmed for a seeded change, from the output of a verification
script (lines '##### <name>', 'demo: clean exit=0 patched exit=1', '<pytest summary>') and the script itself
(lines 'v <name> <test paths...>').   usage: confirm_seeds.py <verify.out> <verify.sh>"""
import json, re, sys, pathlib

out, sh = sys.argv[1:3]
paths = {}
for line in open(sh):
    m = re.match(r"v (\S+) (.+)", line.strip())
    if m:
        paths[m.group(1)] = m.group(2)
cur, res = None, {}
for line in open(out):
    line = line.strip()
    if line.startswith("#####"):
        cur = line.split()[1]
        res[cur] = {}
    elif line.startswith("demo:"):
        res[cur]["demo"] = line
    elif "passed" in line or "failed" in line:
        res[cur]["tests"] = line
root = pathlib.Path(__file__).resolve().parent.parent / "seeded"
for name, r in res.items():
    f = root / name / "meta.json"
    if not f.exists():
        print("missing", name); continue
    if r.get("demo") != "demo: clean exit=0 patched exit=1":
        print("DEMO NOT CONFIRMED", name, r); continue
    meta = json.load(open(f))
    meta["confirmed_by_maintainer_of_verif"] = {
        "demo": "tools/demo_seeds.sh: demo.py exits 0 on the clean HEAD and 1 with patch.diff applied (scratch worktree)",
        "existing_tests": f"pytest -q -p no:cacheprovider {paths.get(name, '?')} with the patch applied: {r.get('tests')} (failures/errors, if any, are the network-dependent tests that also fail on the unchanged tree)",
        "checks": "tools/run_seeded.sh (scratch worktree + VF_REPO_ROOT); result recorded in DESIGN.md section 8",
    }
    json.dump(meta, open(f, "w"), indent=1)
    print("confirmed", name)
