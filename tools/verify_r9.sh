#!/bin/bash
cd /verif
export OMP_NUM_THREADS=1
v() { d=$1; shift; echo "##### $d"; tools/verify_seed.sh seeded/$d "$@" 2>&1 | grep -E "demo:|passed|failed"; }
v A9_C01 test/unit/metrics test/unit/utils
v A9_C02 test/unit/metrics
v A9_C11 test/unit/metrics
v A9_C18 test/unit/metrics
v D9_C03 test/unit/metrics
v D9_C14 test/unit/metrics
v D9_C12 test/unit/postprocessing
v D9_C20 test/unit/reductions/exponentiated_gradient
v B9_C04 test/unit/postprocessing
v B9_C05 test/unit/postprocessing
v B9_C10 test/unit/postprocessing
v B9_C13 test/unit/utils test/unit/postprocessing
v E9_C15 test/unit/preprocessing
v E9_C16 test/unit/adversarial
v E9_C17 test/unit/adversarial
v E9_C19 test/unit/reductions/moments test/unit/reductions/exponentiated_gradient
v C9_C06 test/unit/reductions/moments test/unit/reductions/grid_search
v C9_C07 test/unit/reductions/moments test/unit/reductions/grid_search
v C9_C09 test/unit/reductions/grid_search
v C9_C08 test/unit/reductions/exponentiated_gradient
# seeds rebased onto the HEAD with the D25 / D26 repairs
v A_C03 test/unit/metrics
v D_C14 test/unit/metrics
v D2_C14 test/unit/metrics
v B5_C10 test/unit/postprocessing
v D4_C10 test/unit/postprocessing
v D6_C13 test/unit/postprocessing
v D7_C12 test/unit/postprocessing
v B8_C04 test/unit/postprocessing
