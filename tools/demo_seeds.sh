#!/bin/bash
# For every seeded change: demo exit code on the clean HEAD and with the patch applied (scratch worktree).
W=$(mktemp -d /tmp/vdemo_XXXX); rmdir "$W"
git -C /repo worktree add -q --detach "$W" HEAD || exit 2
trap 'git -C /repo worktree remove --force "$W"' EXIT
cd "$W"
for D in /verif/seeded/*/; do
  d=$(basename $D)
  [ -n "$1" ] && [[ ! "$d" =~ $1 ]] && continue
  git checkout -q -- .
  timeout 600 env PYTHONPATH="$W" /venv/bin/python "$D/demo.py" >/dev/null 2>&1; clean=$?
  if git apply "$D/patch.diff" 2>/dev/null; then
    timeout 600 env PYTHONPATH="$W" /venv/bin/python "$D/demo.py" >/dev/null 2>&1; broken=$?
  else broken="PATCH-FAILS"; fi
  echo "$d clean=$clean patched=$broken"
done
