#!/bin/bash
# Run quick checks of the given properties against a seeded change, in a scratch worktree of /repo
# (VF_REPO_ROOT), leaving /repo untouched.   usage: run_seeded.sh <seed dir> <PROP> [<PROP>...]
D=$(realpath "$1"); shift
W=$(mktemp -d /tmp/vseedrun_XXXX); rmdir "$W"
git -C /repo worktree add -q --detach "$W" HEAD || exit 2
trap 'git -C /repo worktree remove --force "$W"' EXIT
git -C "$W" apply "$D/patch.diff" || { echo "PATCH DOES NOT APPLY to current HEAD"; exit 2; }
cd "$(dirname "$0")/.."
for P in "$@"; do
  out=$(VF_REPO_ROOT="$W" VF_JOBS=${VF_JOBS:-8} VF_SCALE=${VF_SCALE:-1} ./vfcheck "$P" --tier quick --no-evidence 2>&1)
  code=$?
  echo "== $(basename $D) vs $P: exit=$code"
  echo "$out" | grep -E "^VIOLATION|sub-check|HARNESS|VACUOUS|INCONCLUSIVE" | cut -c1-260 | head -8
done
# replays/ of seed runs are left in place (gitignored); remove by hand
