#!/bin/bash
# Thorough tier of the sub-checks added in the last rounds only (the full thorough tier takes hours).
cd "$(dirname "$0")/.."
run() { p=$1; s=$2; t0=$(date +%s); out=$(VF_JOBS=${VF_JOBS:-6} ./vfcheck $p --tier thorough --sub $s --no-evidence 2>&1); code=$?; echo "$p $s exit=$code wall=$(( $(date +%s)-t0 ))s $(echo "$out" | grep -E '^VIOLATION|HARNESS|VACUOUS|INCONCLUSIVE|sub-check' | head -2 | cut -c1-250)"; }
run C01 sparse_product
run C01 cells_large
run C03 named_huge
run C04 eo_near_diagonal
run C04 parity_large_tied_groups
run C05 optimum_large_noisy
run C06 parity_gamma_large
run C07 custom_utilities
run C10 threshold_huge_batch
run C10 threshold_near_vertex_grid
run C12 metricframe_huge_series
run C12 multi_column_renaming
run C14 long_vectors
run C15 tall_near_collinear
run C15 column_scales
run C18 many_rows
run C18 distinct_resamples
run C18 uniform_draws
run C16 update
run C17 schedule
run C08 saddle_point
run C19 reconfigured_refits
run C19 histories_sampled
run C02 aggregates
