#!/usr/bin/env python3
"""Report observed class fraction / floor for every sub-check from the evidence files (vacuity-guard margins)."""
import importlib, json, os, sys
HERE = os.path.dirname(os.path.dirname(os.path.abspath(__file__)))
sys.path.insert(0, HERE)
import vf.runner  # noqa
rows = []
for i in range(1, 21):
    pid = f"C{i:02d}"
    ev = os.path.join(HERE, "evidence", pid + ".json")
    if not os.path.exists(ev):
        continue
    e = json.load(open(ev))
    mod = importlib.import_module(f"vf.props.c{i:02d}")
    for s in mod.SUBS:
        sc = e["coverage"]["subchecks"].get(s.name)
        if not sc or not sc["evaluations"]:
            continue
        for tag, floor in s.floors.items():
            frac = sc["classes"].get(tag, 0) / sc["evaluations"]
            rows.append((frac / floor if floor else 99, pid, s.name, tag, round(frac, 3), floor, e["tier"], e["seed"]))
for r in sorted(rows)[:25]:
    print("margin=%.2f %s %s %s observed=%s floor=%s (%s seed %s)" % r)
