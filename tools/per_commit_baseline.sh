#!/bin/bash
# Run the repository's suite at every "fix:" commit of /repo (each in its own scratch worktree) and compare
# with BASELINE.json.  usage: per_commit_baseline.sh [parallel]   (results: /tmp/percommit/<sha>.out)
PAR=${1:-2}
mkdir -p /tmp/percommit
cd /repo
for sha in $(git log --reverse --format=%h --grep='^fix:' ); do
  [ -s /tmp/percommit/$sha.out ] && grep -q "^passed=" /tmp/percommit/$sha.out && continue
  while [ $(jobs -r | wc -l) -ge $PAR ]; do sleep 15; done
  (
    W=/tmp/percommit/wt_$sha
    git -C /repo worktree add -q --detach $W $sha
    /verif/tools/run_baseline.sh $W /tmp/percommit/$sha.xml > /tmp/percommit/$sha.out 2>&1
    git -C /repo worktree remove --force $W
    rm -f /tmp/percommit/$sha.xml /tmp/percommit/$sha.log
  ) &
done
wait
for f in /tmp/percommit/*.out; do echo "$(basename $f .out) $(grep '^passed=' $f)"; done
