#!/usr/bin/env python3
"""Lower vacuity floors whose margin (observed/floor) in the current evidence is below MARGIN to FACTOR x observed."""
import importlib, json, os, re, sys
HERE = os.path.dirname(os.path.dirname(os.path.abspath(__file__)))
sys.path.insert(0, HERE)
import vf.runner  # noqa
MARGIN, FACTOR = 2.2, 0.45
for i in range(1, 21):
    pid = f"C{i:02d}"
    e = json.load(open(os.path.join(HERE, "evidence", pid + ".json")))
    path = os.path.join(HERE, "vf", "props", f"c{i:02d}.py")
    src = open(path).read()
    mod = importlib.import_module(f"vf.props.c{i:02d}")
    changed = False
    for s in mod.SUBS:
        sc = e["coverage"]["subchecks"].get(s.name)
        if not sc or not sc["evaluations"]:
            continue
        m = re.search(r'Sub\(\s*"%s"' % re.escape(s.name), src)
        if not m:
            print("!! no Sub literal for", pid, s.name)
            continue
        a = m.start()
        nxt = src.find("Sub(", a + 4)
        b = nxt if nxt != -1 else len(src)
        seg = src[a:b]
        for tag, floor in s.floors.items():
            frac = sc["classes"].get(tag, 0) / sc["evaluations"]
            if floor >= 1.0 or frac == 0:
                continue
            if frac / floor < MARGIN:
                new = max(0.005, round(frac * FACTOR, 3))
                pat = re.compile(r'("%s":\s*)%s\b' % (re.escape(tag), re.escape(repr(floor))))
                seg2, n = pat.subn(lambda m: m.group(1) + repr(new), seg, count=1)
                if n:
                    print(pid, s.name, tag, floor, "->", new, "(observed %.3f)" % frac)
                    seg = seg2
                    changed = True
                else:
                    print("!! could not patch", pid, s.name, tag, floor)
        src = src[:a] + seg + src[b:]
    if changed:
        open(path, "w").write(src)
