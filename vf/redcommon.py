"""Shared pieces of the reduction checks (C08 ExponentiatedGradient, C09 GridSearch).

* strategies for small reduction datasets (plain JSON): n in [6, 24], one categorical feature with
  2..5 levels (values 0..L-1), binary labels, 2..4 groups, one of the five parity moments with a
  default / difference / ratio(+slack) bound;
* first-principles references computed with plain numpy (never through a fairlearn moment):
  error and constraint vector gamma of a prediction vector, of every table classifier of the
  enumerated class H (all 2^L functions of the occurring levels) and - by linearity - of a
  distribution over predictors; ``ref_lp`` the constrained optimum over distributions on H.

Constraint vector (documented in the user guide of the moments, re-derived here): for every
(event e, group g) pair that occurs in the data, with u_i = h(x_i) (u_i = 1[h(x_i) != y_i] for
ErrorRateParity), mean_e the mean of u over the rows of event e and mean_{e,g} over the rows of
event e and group g, and r the ratio (1 for difference bounds)

    gamma[('+', e, g)] = r * mean_{e,g}(u) - mean_e(u)
    gamma[('-', e, g)] = r * mean_e(u)     - mean_{e,g}(u)

and every entry is required to be <= bound (difference_bound, or ratio_bound_slack for ratio bounds).
Events: 'all' (DemographicParity, ErrorRateParity), 'label=1' (TruePositiveRateParity), 'label=0'
(FalsePositiveRateParity), both (EqualizedOdds).
"""

from __future__ import annotations

import itertools

import numpy as np
import pandas as pd
from hypothesis import strategies as st

from vf.runner import PropertyViolation

MOMENTS = [
    "DemographicParity",
    "TruePositiveRateParity",
    "FalsePositiveRateParity",
    "EqualizedOdds",
    "ErrorRateParity",
]
# event name -> label value the event conditions on (None = no conditioning)
EVENT_LABEL = {"all": None, "label=0": 0, "label=1": 1}
EVENTS = {
    "DemographicParity": ["all"],
    "TruePositiveRateParity": ["label=1"],
    "FalsePositiveRateParity": ["label=0"],
    "EqualizedOdds": ["label=0", "label=1"],
    "ErrorRateParity": ["all"],
}
GROUP_ALPHABETS = {
    "int": [0, 1, 2, 3],
    "str": ["a", "b", "c", "d"],
    "int2": [7, 3, 12, 5],  # order of first appearance / sort order / value all differ
    "str2": ["w", "B", "m", "A"],
}
DEFAULT_DIFFERENCE_BOUND = 0.01  # documented default of UtilityParity


# ---- strategies ------------------------------------------------------------------------------------

_bounds = st.one_of(
    st.just({"kind": "default"}),
    st.builds(lambda v: {"kind": "diff", "value": v}, st.sampled_from([0.005, 0.02, 0.05, 0.1, 0.2, 0.3])),
    st.builds(
        lambda r, s: {"kind": "ratio", "ratio": r, "slack": s},
        st.sampled_from([0.5, 0.7, 0.8, 0.9, 0.95, 1.0]),
        st.sampled_from([0.0, 0.0, 0.01, 0.05, 0.1]),
    ),
)


def required_labels(moment):
    """Label values every group must contain so that every (event, group) pair of the moment occurs."""
    return [EVENT_LABEL[e] for e in EVENTS[moment] if EVENT_LABEL[e] is not None]


@st.composite
def reduction_data(draw, min_groups=2, max_groups=3, pairs="free", moments=None):
    """Rows (level, group index, label) of a small dataset plus the moment description.

    pairs = "free":     only the groups themselves are forced to occur (one mandatory row each);
    pairs = "complete": additionally every (event, group) pair of the drawn moment occurs - built by
                        construction from mandatory rows (one per group and conditioned label);
    pairs = "missing":  a moment that conditions on the label, and at least one group lacks one of
                        the conditioned label classes (the input region of finding D11).
    """
    pool = list(moments or MOMENTS)
    if pairs == "missing":
        pool = [m for m in pool if required_labels(m)]
    moment = draw(st.sampled_from(pool))
    n_groups = draw(st.integers(min_groups, max_groups))
    n_levels = draw(st.integers(2, 5))
    need = required_labels(moment)
    level = st.integers(0, n_levels - 1)
    bit = st.integers(0, 1)

    rows = []
    missing = {}
    if pairs == "missing":
        # every listed group gets only the other label
        g0 = draw(st.integers(0, n_groups - 1))
        missing[g0] = draw(st.sampled_from(need))
        for g in range(n_groups):
            # at least one group stays complete, so every event of the moment occurs
            if g != g0 and len(missing) < n_groups - 1 and draw(st.integers(0, 5)) == 0:
                missing[g] = draw(st.sampled_from(need))
    for g in range(n_groups):
        if g in missing:
            rows.append((draw(level), g, 1 - missing[g]))
        elif pairs == "free" or not need:
            rows.append((draw(level), g, draw(bit)))
        else:
            for lab in need:
                rows.append((draw(level), g, lab))
    if pairs == "free":
        # every event of the moment occurs at least once (otherwise there is no constraint at all)
        for lab in need:
            rows.append((draw(level), draw(st.integers(0, n_groups - 1)), lab))
    n = draw(st.integers(max(6, len(rows)), 24))
    # the remaining rows: free, or structured (each group prefers a level, each level prefers a label)
    # so that the feature is informative, groups differ and the constraints bind
    mode = draw(st.sampled_from(["free", "skew", "skew"]))
    if mode == "skew":
        # two distinct levels with opposite preferred labels; the first two groups prefer one each
        la = draw(level)
        lb = (la + draw(st.integers(1, n_levels - 1))) % n_levels
        level_label = [draw(bit) for _ in range(n_levels)]
        level_label[lb] = 1 - level_label[la]
        pref_level = [la, lb] + [draw(level) for _ in range(n_groups - 2)]
    while len(rows) < n:
        g = draw(st.integers(0, n_groups - 1))
        if mode == "skew":
            lv = draw(level) if draw(st.integers(0, 3)) == 3 else pref_level[g]
            lab = draw(bit) if draw(st.integers(0, 3)) == 3 else level_label[lv]
        else:
            lv, lab = draw(level), draw(bit)
        if g in missing:
            lab = 1 - missing[g]
        rows.append((lv, g, lab))
    perm = draw(st.permutations(range(n)))
    rows = [rows[i] for i in perm]
    return {
        "levels": [r[0] for r in rows],
        "groups": [r[1] for r in rows],
        "y": [r[2] for r in rows],
        "n_levels": n_levels,
        "alphabet": draw(st.sampled_from(sorted(GROUP_ALPHABETS))),
        "moment": moment,
        "bound": draw(_bounds),
        "x_kind": draw(st.sampled_from(["ndarray", "frame"])),
        "y_kind": draw(st.sampled_from(["list", "ndarray", "series"])),
        "sf_kind": draw(st.sampled_from(["list", "ndarray", "series"])),
        "index": draw(st.sampled_from(["default", "default", "offset"])),
        "tie": draw(st.integers(0, 1)),
        "swn": draw(st.booleans()),  # learner takes its weights under another keyword (sample_weight_name)
        "nested": draw(st.integers(0, 2)) == 0,  # GridSearch: learner whose fitted state lives in a nested container
        "user_grid": draw(st.integers(0, 3)) == 0,  # GridSearch: also run with the grid supplied through grid=
    }


def has_missing_pair(case):
    """True when some group lacks a label class the moment conditions on (region of D11)."""
    need = required_labels(case["moment"])
    if not need:
        return False
    have = set(zip(case["groups"], case["y"]))
    return any((g, lab) not in have for g in set(case["groups"]) for lab in need)


# ---- containers --------------------------------------------------------------------------------------


def _index(case, n):
    return pd.RangeIndex(n) if case.get("index", "default") == "default" else pd.Index(np.arange(n) + 100)


def build_X(case, levels=None):
    levels = case["levels"] if levels is None else levels
    arr = np.asarray(levels, dtype=int).reshape(-1, 1)
    if case.get("x_kind", "ndarray") == "frame":
        return pd.DataFrame(arr, columns=["f"], index=_index(case, len(arr)))
    return arr


def build_vector(case, kind, values):
    if kind == "list":
        return list(values)
    if kind == "ndarray":
        return np.asarray(values)
    if kind == "series":
        return pd.Series(list(values), index=_index(case, len(values)))
    raise ValueError(kind)


def group_labels(case):
    alpha = GROUP_ALPHABETS[case.get("alphabet", "int")]
    return [alpha[g] for g in case["groups"]]


def build_moment(case):
    """A fresh fairlearn moment object for the case (imported lazily)."""
    import fairlearn.reductions as red

    cls = getattr(red, case["moment"])
    b = case["bound"]
    if b["kind"] == "default":
        return cls()
    if b["kind"] == "diff":
        return cls(difference_bound=b["value"])
    return cls(ratio_bound=b["ratio"], ratio_bound_slack=b["slack"])


def ratio_and_bound(case):
    b = case["bound"]
    if b["kind"] == "default":
        return 1.0, DEFAULT_DIFFERENCE_BOUND
    if b["kind"] == "diff":
        return 1.0, float(b["value"])
    return float(b["ratio"]), float(b["slack"])


# ---- first-principles reference ------------------------------------------------------------------------


def _plain(v):
    return v.item() if isinstance(v, np.generic) else v


class Problem:
    """The constrained classification problem of a case, from the rows alone."""

    def __init__(self, case):
        self.levels = np.asarray(case["levels"], dtype=int)
        self.y = np.asarray(case["y"], dtype=int)
        self.g = group_labels(case)
        self.n = len(self.y)
        self.moment = case["moment"]
        self.ratio, self.bound = ratio_and_bound(case)
        self.error_utility = self.moment == "ErrorRateParity"
        c = case.get("costs")
        self.costs = (1.0, 1.0) if not c else (float(c["fp"]), float(c["fn"]))
        garr = np.asarray(self.g, dtype=object)
        groups = []
        for v in self.g:
            if v not in groups:
                groups.append(v)
        self.group_values = groups
        self.cells = []  # (event, group, mask_event, mask_event_and_group)
        for e in EVENTS[self.moment]:
            lab = EVENT_LABEL[e]
            me = np.ones(self.n, dtype=bool) if lab is None else (self.y == lab)
            for gv in groups:
                meg = me & np.asarray([x == gv for x in garr], dtype=bool)
                if meg.any():
                    self.cells.append((e, gv, me, meg))
        self.keys = [("+", e, gv) for e, gv, _, _ in self.cells] + [("-", e, gv) for e, gv, _, _ in self.cells]
        self.key_pos = {k: i for i, k in enumerate(self.keys)}
        self.present = sorted(set(self.levels.tolist()))
        self._pos = {lv: i for i, lv in enumerate(self.present)}
        self._class = None

    # -- single prediction vector ---------------------------------------------------------------------
    def _pred(self, pred):
        p = np.asarray(pred)
        if p.ndim == 2 and p.shape[1] == 1:
            p = p[:, 0]
        if p.shape != (self.n,):
            raise PropertyViolation(f"predictions have shape {np.shape(pred)}, expected ({self.n},)")
        p = p.astype(float)
        if not np.all((p == 0) | (p == 1)):
            raise PropertyViolation(f"predictions are not 0/1: {p.tolist()}")
        return p

    def error(self, pred):
        """Objective value: misclassification rate, or the cost-weighted error when the case names costs."""
        p = self._pred(pred)
        fp, fn = self.costs
        return float(np.mean(fp * ((p == 1) & (self.y == 0)) + fn * ((p == 0) & (self.y == 1))))

    def gamma(self, pred):
        p = self._pred(pred)
        u = (p != self.y).astype(float) if self.error_utility else p
        plus, minus = [], []
        for _, _, me, meg in self.cells:
            m_e = float(u[me].mean())
            m_eg = float(u[meg].mean())
            plus.append(self.ratio * m_eg - m_e)
            minus.append(self.ratio * m_e - m_eg)
        return np.asarray(plus + minus, dtype=float)

    # -- the enumerated class H ------------------------------------------------------------------------
    def table_predictions(self, table):
        t = np.asarray(table, dtype=int)
        return t[[self._pos[lv] for lv in self.levels.tolist()]]

    def hypothesis_class(self):
        """(tables, errors[|H|], gammas[|H|, K]) over all 2^L tables on the occurring levels."""
        if self._class is None:
            tables = list(itertools.product((0, 1), repeat=len(self.present)))
            errs = np.asarray([self.error(self.table_predictions(t)) for t in tables])
            gams = np.asarray([self.gamma(self.table_predictions(t)) for t in tables])
            self._class = (tables, errs, gams)
        return self._class

    # -- fairlearn index -> positions of my keys ---------------------------------------------------------
    def align(self, series, what):
        """Values of a fairlearn Series indexed by (sign, event, group) in the order of self.keys."""
        if not isinstance(series, pd.Series):
            raise PropertyViolation(f"{what} is {type(series).__name__}, not a Series")
        got = {}
        for idx, v in zip(series.index.tolist(), series.to_numpy(dtype=float).tolist()):
            if not (isinstance(idx, tuple) and len(idx) == 3):
                raise PropertyViolation(f"{what}: index entry {idx!r} is not (sign, event, group)")
            k = (idx[0], idx[1], _plain(idx[2]))
            if k in got:
                raise PropertyViolation(f"{what}: duplicate index entry {k!r}")
            got[k] = v
        if set(got) != set(self.keys):
            raise PropertyViolation(
                f"{what}: index {sorted(map(str, got))} != (sign, event, group) over the occurring pairs "
                f"{sorted(map(str, self.keys))}"
            )
        return np.asarray([got[k] for k in self.keys], dtype=float)

    def project(self, lam):
        """Difference bounds: the pair (lam+, lam-) of one (event, group) acts only through lam+ - lam-
        (gamma- = -gamma+), so the equivalent multiplier with the smaller norm is the recorded one."""
        if self.ratio != 1.0:
            return np.asarray(lam, dtype=float)
        k = len(self.cells)
        d = np.asarray(lam[:k], dtype=float) - np.asarray(lam[k:], dtype=float)
        return np.concatenate([np.maximum(d, 0.0), np.maximum(-d, 0.0)])


def ref_lp(problem):
    """Constrained optimum over distributions on H: min err.q s.t. Gamma q <= bound, q in simplex.

    Returns {"upper", "lower", "q", "min_err", "residual"}:
    "lower" = min_h err(h) + mu.(gamma(h) - bound) for the solver's dual mu >= 0, a Lagrangian lower
    bound of OPT certified by direct enumeration; "upper" = err of a distribution whose feasibility is
    re-evaluated directly: the solver's q, moved towards a strictly feasible anchor (a constant
    classifier with gamma = (r-1)*const, or the fair coin over the two constants for error-rate parity,
    where every group has error 1/2) when it violates a constraint by rounding. "residual" is the
    remaining violation (0 unless the feasible set has no interior, i.e. bound 0 with ratio 1, where no
    anchor with slack exists); callers treat residual > 1e-10 or upper - lower > 1e-7 as "reference
    not certified" and skip the case, so solver tolerances cannot leak into a verdict.
    """
    from scipy.optimize import linprog

    tables, errs, gams = problem.hypothesis_class()
    nh, k = gams.shape
    res = linprog(
        errs,
        A_ub=gams.T,
        b_ub=np.full(k, problem.bound),
        A_eq=np.ones((1, nh)),
        b_eq=[1.0],
        bounds=[(0, None)] * nh,
        method="highs",
    )
    if res.status != 0:
        raise RuntimeError(f"reference LP failed: {res.message}")
    q = np.maximum(np.asarray(res.x, dtype=float), 0.0)
    q = q / q.sum()
    i0 = tables.index(tuple([0] * len(problem.present)))
    i1 = tables.index(tuple([1] * len(problem.present)))
    viol = float(np.max(gams.T @ q - problem.bound))
    if viol > 0:
        best = None
        for w0 in (1.0, 0.0, 0.5):
            a = np.zeros(nh)
            a[i0] += w0
            a[i1] += 1.0 - w0
            slack = -float(np.max(gams.T @ a - problem.bound))
            if slack > 0 and (best is None or slack > best[0]):
                best = (slack, a)
        if best is not None:
            t = viol / (viol + best[0])
            for _ in range(60):
                cand = (1 - t) * q + t * best[1]
                if float(np.max(gams.T @ cand - problem.bound)) <= 0:
                    break
                t = min(1.0, 2 * t + 1e-15)
            q = cand
            viol = max(0.0, float(np.max(gams.T @ q - problem.bound)))
    upper = float(errs @ q)
    mu = np.maximum(-np.asarray(res.ineqlin.marginals, dtype=float), 0.0)
    lower = float(np.min(errs + (gams - problem.bound) @ mu))
    return {"upper": upper, "lower": lower, "q": q, "min_err": float(errs.min()), "residual": max(0.0, viol)}


def lp_certified(ref):
    return ref["residual"] <= 1e-10 and ref["upper"] - ref["lower"] <= 1e-7


def mixture(weights, values):
    """Value of a distribution over predictors by linearity."""
    w = np.asarray(weights, dtype=float)
    v = np.asarray(values, dtype=float)
    return w @ v
