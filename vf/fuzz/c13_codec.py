"""Byte <-> table codec of the C13 fuzz target (sequential, so seeds can be written from tables)."""

CHARS = ["a", ",", "\\", " ", "1", ".", "0", "b", "c"]
KINDS = ["ndarray", "dataframe", "listoflists", "ndarray_str"]


def decode(data: bytes):
    pos = [0]

    def nxt():
        b = data[pos[0]] if pos[0] < len(data) else 0
        pos[0] += 1
        return b

    ncol = 2 + nxt() % 2
    nrows = 2 + nxt() % 5
    role = "control" if nxt() % 2 else "sensitive"
    kind = KINDS[nxt() % len(KINDS)]
    table = []
    for _ in range(nrows):
        row = []
        for _ in range(ncol):
            ln = nxt() % 5
            row.append("".join(CHARS[nxt() % len(CHARS)] for _ in range(ln)))
        table.append(row)
    if len({tuple(r) for r in table}) < 2:
        table[-1] = [c + "," for c in table[0]]
    y = [nxt() % 2 for _ in range(nrows)]
    single = ["p" if nxt() % 2 else "q" for _ in range(nrows)]
    return {"table": table, "y": y, "kind": kind, "moment": "DemographicParity", "role": role, "single": single}


def encode(table, role=0, kind=0):
    ncol, nrows = len(table[0]), len(table)
    out = [ncol - 2, nrows - 2, role, kind]
    for row in table:
        for cell in row:
            out.append(len(cell))
            out.extend(CHARS.index(ch) for ch in cell)
    out.extend([i % 2 for i in range(nrows)])
    out.extend([(i // 2) % 2 for i in range(nrows)])
    return bytes(out)


# small valid tables in the style of the repository's multi-column tests, with separator / escape characters
SEED_TABLES = [
    [["a", "b"], ["a", "c"], ["b", "c"]],
    [["a,b", "c"], ["a", "bc"], ["a", "c"]],
    [["a\\", "b"], ["a", "b"], ["a\\", "b"]],
    [["a\\", "b,c"], ["a,b", "c"], ["a", "c"]],
    [["1", "1.0"], ["1.0", "1"], ["01", "1"]],
    [["a", ",", "b"], ["a,", "", "b"], ["a", "", "b"]],
]
