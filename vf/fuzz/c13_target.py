"""atheris / libFuzzer target for C13: bytes -> feature table -> partition oracle of vf.props.c13.

usage: python -m vf.fuzz.c13_target STATS_JSON FAIL_JSON [libFuzzer args...]
Exit code 77 = property violation (FAIL_JSON holds the case); libFuzzer's own exit codes otherwise.
"""

import json
import os
import sys

import atheris

with atheris.instrument_imports(include=["fairlearn.utils", "fairlearn.reductions._moments"]):
    import vf.runner  # noqa: F401  (fixes sys.path to the tree under test)
    import fairlearn.reductions  # noqa: F401

from vf.props import c13  # noqa: E402
from vf.runner import PropertyViolation, digest  # noqa: E402

STATS, FAIL = sys.argv[1], sys.argv[2]
state = {"execs": 0, "nt": set(), "tags": {}, "samples": []}


from vf.fuzz.c13_codec import decode  # noqa: E402


def flush():
    with open(STATS, "w") as f:
        json.dump({"execs": state["execs"], "nt": sorted(state["nt"]), "tags": state["tags"], "samples": state["samples"]}, f)


def TestOneInput(data):
    case = decode(data)
    try:
        tags = c13.check_moment(case)
    except PropertyViolation as v:
        with open(FAIL, "w") as f:
            json.dump({"case": case, "message": str(v)}, f)
        flush()
        os._exit(77)
    state["execs"] += 1
    for t in tags:
        state["tags"][t] = state["tags"].get(t, 0) + 1
    if "nt" in tags:
        d = digest(case)
        if d not in state["nt"]:
            state["nt"].add(d)
            if len(state["samples"]) < 2:
                state["samples"].append(case)
    if state["execs"] % 250 == 0:
        flush()


if __name__ == "__main__":
    atheris.Setup([sys.argv[0]] + sys.argv[3:], TestOneInput)
    atheris.Fuzz()
