"""Shared Hypothesis strategies and container builders.

All strategies return plain JSON-serialisable values; ``build_*`` functions turn them into the
numpy / pandas objects handed to fairlearn.  No RNG is used outside Hypothesis.
"""

from __future__ import annotations

import itertools

import numpy as np
import pandas as pd
from hypothesis import strategies as st

# ---- group alphabets ---------------------------------------------------------------------------

ALPHABETS = {
    "str": ["a", "b", "c", "d"],
    "str2": ["x_1", "x", "", "Z z"],
    "int": [0, 1, 2, 3],
    "int2": [10, -3, 7, 2],
    "float": [0.5, 1.5, 2.5, -1.0],
    "bool": [False, True],
}


@st.composite
def feature_table(draw, n_cols, max_levels=3, max_rows=24, min_rows=1, cell_sizes=(0, 1, 1, 2, 3, 5)):
    """A table of n_cols grouping columns built cell by cell.

    Returns {"cols": [[...], ...], "types": [...]} with the rows already shuffled.  Cells of the
    Cartesian product receive 0 (empty intersection), 1 (single-member group) or several rows, so
    those shapes are frequent by construction.
    """
    types = [draw(st.sampled_from(sorted(ALPHABETS))) for _ in range(n_cols)]
    levels = []
    for t in types:
        alpha = ALPHABETS[t]
        k = draw(st.sampled_from([v for v in (1, 2, 2, 3, 3, 4) if v <= min(max_levels, len(alpha))]))
        start = draw(st.integers(0, len(alpha) - k))
        levels.append(alpha[start : start + k])
    cells = list(itertools.product(*levels))
    sizes = [draw(st.sampled_from(cell_sizes)) for _ in cells]
    if sum(sizes) < min_rows:
        sizes[draw(st.integers(0, len(cells) - 1))] += min_rows - sum(sizes)
    rows = []
    for c, s in zip(cells, sizes):
        rows.extend([c] * s)
    if len(rows) > max_rows:
        # drop rows but keep at least one per occupied cell where possible
        keep = draw(st.permutations(range(len(rows))))[:max_rows]
        rows = [rows[i] for i in sorted(keep)]
    perm = draw(st.permutations(range(len(rows))))
    rows = [rows[i] for i in perm]
    cols = [[r[j] for r in rows] for j in range(n_cols)]
    return {"cols": cols, "types": types}


# ---- containers ----------------------------------------------------------------------------------

INDEX_PLANS = ["default", "rev", "offset", "dup", "str", "shuffled", "datetime", "multi", "named"]
VECTOR_KINDS = ["list", "ndarray", "ndarray2d", "series", "dataframe", "ndarray_readonly", "ndarray_strided"]


def make_index(plan, n):
    if plan == "default":
        return pd.RangeIndex(n)
    if plan == "rev":
        return pd.Index(np.arange(n)[::-1])
    if plan == "offset":
        return pd.Index(np.arange(n) + 100)
    if plan == "dup":
        return pd.Index([i // 2 for i in range(n)])
    if plan == "str":
        return pd.Index([f"r{(i * 7) % (n + 3)}_{i}" for i in range(n)])
    if plan == "datetime":
        return pd.date_range("2020-01-31", periods=n, freq="-1D", tz="UTC")
    if plan == "multi":
        return pd.MultiIndex.from_arrays([[i % 2 for i in range(n)], [n - i for i in range(n)]], names=["a", "b"])
    if plan == "named":
        return pd.Index(np.arange(n)[::-1] * 2, name="y_true")
    if plan == "shuffled":
        return pd.Index(np.argsort([(i * 7919 + 13) % 10007 for i in range(n)]))
    raise ValueError(plan)


def _obj_array(values):
    arr = np.empty(len(values), dtype=object)
    for i, v in enumerate(values):
        arr[i] = v
    return arr


def to_ndarray(values):
    """numpy array with a natural dtype (object only when types are mixed)."""
    ts = {type(v) for v in values}
    if len(ts) > 1 and not ts <= {int, float}:
        return _obj_array(values)
    return np.asarray(values)


def wrap_vector(kind, values, index_plan="default", name=None):
    n = len(values)
    if kind == "list":
        return list(values)
    if kind == "ndarray":
        return to_ndarray(values)
    if kind == "ndarray2d":
        return to_ndarray(values).reshape(n, 1)
    if kind == "ndarray_row":
        return to_ndarray(values).reshape(1, n)  # a row vector: leading singleton dimension
    if kind == "nested_list":
        return [list(values)]
    if kind == "ndarray_object":
        return _obj_array(list(values))
    if kind == "ndarray_readonly":
        arr = to_ndarray(values).copy()
        arr.setflags(write=False)
        return arr
    if kind == "ndarray_strided":
        # a non-contiguous view (every second element of a longer buffer)
        base = to_ndarray(list(values) + list(values))
        buf = np.empty(2 * n, dtype=base.dtype)
        buf[0::2] = base[:n]
        buf[1::2] = base[n:][::-1] if n else base[n:]
        return buf[0::2]
    if kind == "series_object":
        return pd.Series(_obj_array(list(values)), index=make_index(index_plan, n), name=name, dtype=object)
    if kind == "series":
        return pd.Series(list(values), index=make_index(index_plan, n), name=name)
    if kind == "dataframe":
        return pd.DataFrame({(name if name is not None else "col"): list(values)}, index=make_index(index_plan, n))
    if kind in ("series_categorical", "dataframe_categorical"):
        # pandas category dtype with a category that never occurs (a level filtered out earlier in the user's pipeline)
        ser = pd.Series(_categorical(values), index=make_index(index_plan, n), name=name)
        return ser if kind == "series_categorical" else ser.to_frame(name if name is not None else "col")
    raise ValueError(kind)


def _categorical(values):
    vals = list(values)
    cats = []
    for v in vals:
        if v not in cats:
            cats.append(v)
    extra = "zz_unused" if all(isinstance(c, str) for c in cats) else (max(cats) + 17 if all(isinstance(c, (int, float)) and not isinstance(c, bool) for c in cats) else None)
    # categories in an order that is neither the order of appearance nor sorted
    cats = cats[::-1] + ([extra] if extra is not None and extra not in cats else [])
    return pd.Categorical(vals, categories=cats)


PY_CASTS = {"int": int, "float": float, "bool": bool}
NP_DTYPES = ["uint8", "int8", "uint16", "int32", "float32"]
LABEL_DTYPES = ["int", "int", "int", "float", "bool"] + NP_DTYPES


def typed_vector(kind, values, index_plan="default", name=None, dtype="int"):
    """wrap_vector with the element type chosen: 'int' / 'float' / 'bool' (Python values, natural dtype) or a numpy
    dtype name (uint8, int8, uint16, int32, float32: arrays / Series / frames of that dtype, lists of numpy scalars).
    Values must be representable in the dtype (0/1 labels always are)."""
    if dtype in PY_CASTS:
        return wrap_vector(kind, [PY_CASTS[dtype](v) for v in values], index_plan, name)
    dt = np.dtype(dtype)
    if kind == "list":
        return [dt.type(v) for v in values]
    obj = wrap_vector(kind, [float(v) if dt.kind == "f" else int(v) for v in values], index_plan, name)
    if kind in ("ndarray_object", "series_object"):
        return obj
    out = obj.astype(dt)
    if kind == "ndarray_readonly":
        out.setflags(write=False)
    return out


vector_kind = st.sampled_from(VECTOR_KINDS)
vector_kind_pandas_heavy = st.sampled_from(["series", "dataframe", "series", "list", "ndarray", "ndarray2d", "ndarray_readonly", "ndarray_strided"])
index_plan = st.sampled_from(INDEX_PLANS)


def wrap_features(kind, cols, names, index_plan="default"):
    """Several grouping columns in one of the containers MetricFrame documents.

    kind: 'dataframe' | 'dict' | 'ndarray2d' | (single column only) 'list' | 'ndarray' | 'series'
    Returns (object, effective_names or None) where None means fairlearn assigns default names.
    """
    n = len(cols[0])
    if kind == "dataframe":
        return pd.DataFrame({nm: list(c) for nm, c in zip(names, cols)}, index=make_index(index_plan, n)), list(names)
    if kind == "dataframe_categorical":
        return pd.DataFrame({nm: _categorical(c) for nm, c in zip(names, cols)}, index=make_index(index_plan, n)), list(names)
    if kind == "dict":
        return {nm: (list(c) if i % 2 == 0 else to_ndarray(c)) for i, (nm, c) in enumerate(zip(names, cols))}, list(names)
    if kind == "dict_series":
        idx = make_index(index_plan, n)
        return {nm: pd.Series(list(c), index=idx) for nm, c in zip(names, cols)}, list(names)
    if kind == "ndarray2d":
        arr = np.empty((n, len(cols)), dtype=object)
        for j, c in enumerate(cols):
            for i, v in enumerate(c):
                arr[i, j] = v
        return arr, None
    assert len(cols) == 1
    if kind == "list":
        return list(cols[0]), None
    if kind == "ndarray":
        return to_ndarray(cols[0]), None
    if kind == "series":
        return pd.Series(list(cols[0]), index=make_index(index_plan, n), name=names[0]), [names[0]]
    if kind == "series_noname":
        return pd.Series(list(cols[0]), index=make_index(index_plan, n)), None
    if kind == "series_categorical":
        return pd.Series(_categorical(cols[0]), index=make_index(index_plan, n), name=names[0]), [names[0]]
    raise ValueError(kind)


def feature_kinds(n_cols):
    if n_cols == 1:
        return ["list", "ndarray", "series", "series_noname", "dataframe", "dict", "ndarray2d", "dict_series", "series_categorical",
                "dataframe_categorical"]
    return ["dataframe", "dict", "ndarray2d", "dict_series", "dataframe_categorical"]


# ---- weights -------------------------------------------------------------------------------------

int_weights = st.integers(1, 4)
real_weights = st.one_of(
    st.sampled_from([0.25, 0.5, 1.0, 1.5, 2.0, 3.0]), st.floats(0.05, 20, allow_nan=False)
)


def eq_key(v):
    """Hashable key identifying a group value the way Python equality does (True == 1 aside)."""
    return (type(v).__name__, v)


def snapshot(obj):
    """A deep copy of an argument container for later comparison with :func:`unchanged`."""
    import copy

    return copy.deepcopy(obj)


def unchanged(before, after):
    """True when an argument container still holds what it held before the call (values, index, columns, keys)."""
    if isinstance(before, dict):
        return isinstance(after, dict) and list(before) == list(after) and all(unchanged(before[k], after[k]) for k in before)
    if isinstance(before, pd.DataFrame):
        return isinstance(after, pd.DataFrame) and list(before.columns) == list(after.columns) and \
            before.index.equals(after.index) and before.astype(object).equals(after.astype(object))
    if isinstance(before, pd.Series):
        return isinstance(after, pd.Series) and before.index.equals(after.index) and before.name == after.name and \
            before.astype(object).equals(after.astype(object))
    if isinstance(before, np.ndarray):
        return isinstance(after, np.ndarray) and before.shape == after.shape and before.dtype == after.dtype and \
            bool(np.all((before == after) | ((before != before) & (after != after))))
    if isinstance(before, (list, tuple)):
        return type(before) is type(after) and len(before) == len(after) and all(unchanged(a, b) for a, b in zip(before, after))
    if callable(before):
        return True
    try:
        return bool(before == after) or (before != before and after != after)
    except Exception:  # noqa: BLE001
        return True


def global_state():
    """Fingerprint of process-global state a library call must leave alone when it is given its own random_state:
    numpy's legacy global RNG, numpy's floating-point error handling, the number of warnings filters."""
    import warnings

    st_ = np.random.get_state()
    return (hash(st_[1].tobytes()), int(st_[2]), tuple(sorted(np.geterr().items())), len(warnings.filters))
