"""C03 - named fairness metrics equal their first-principles definitions.

Oracle: weighted selection rate / TPR / FPR per group from boolean masks over the rows (a rate whose
denominator is empty is 0, as the base metrics define it), then max-min, min/max and the to_overall
variants in plain IEEE arithmetic; sklearn-derived generated metrics: the sklearn base metric called on
the group's rows; make_derived_metric: first-principles transform of mask-computed group values, and
the differential relation with the equivalent MetricFrame call.
"""

from __future__ import annotations

import functools
import itertools
import math
import warnings

import numpy as np
import pandas as pd
from hypothesis import strategies as st

from vf import gen
from vf import mfcommon as M
from vf.runner import PropertyViolation, Skip, Sub

PROPERTY = "C03"
LEVEL = "exploration"
RULE = (
    "Binary label/prediction vectors with rows assigned to 1..4 groups of size >= 1 (single-member groups "
    "frequent), optional positive weights, every method x agg; the exhaustive sub-check enumerates every "
    "dataset (y_true, y_pred in {0,1}^n, group assignment in {0,1,2}^n, weights none or in {1,2}^n) for "
    "n <= 2 (quick) / n <= 3 plus unweighted n = 4 (thorough). Non-trivial: >= 2 groups whose selection "
    "rate, TPR or FPR differ."
)
ASSUMPTIONS = [
    "a rate with an empty denominator is 0 (definition of the base metrics, property C14)",
    "equalized-odds aggregation with a NaN component (a rate that is 0 in every group gives ratio 0/0) is "
    "not defined by the property: there only 'result is NaN or equals the defined component' is asserted",
    "group_min / group_max over group values that are themselves NaN (e.g. r2_score of a one-row group) "
    "are not asserted",
    "tolerance 1e-9 relative",
]

NAMED = ["dp_diff", "dp_ratio", "eop_diff", "eop_ratio", "eo_diff", "eo_ratio"]


def _div(a, b):
    a, b = float(a), float(b)
    if b == 0:
        if a == 0 or math.isnan(a):
            return math.nan
        return math.copysign(math.inf, a)
    return a / b


def _rates(yt, yp, w, mask):
    yt, yp, w = yt[mask], yp[mask], w[mask]
    sel = w[yp == 1].sum() / w.sum()
    P, N = w[yt == 1].sum(), w[yt == 0].sum()
    tpr = w[(yt == 1) & (yp == 1)].sum() / P if P > 0 else 0.0
    fpr = w[(yt == 0) & (yp == 1)].sum() / N if N > 0 else 0.0
    return {"sel": float(sel), "tpr": float(tpr), "fpr": float(fpr)}


def _difference(vals, overall, method):
    if method == "between_groups":
        return max(vals) - min(vals)
    return max(abs(v - overall) for v in vals)


def _ratio(vals, overall, method):
    if method == "between_groups":
        return _div(min(vals), max(vals))
    rs = [_div(v, overall) for v in vals]
    if all(math.isnan(r) for r in rs):
        return math.nan
    folded = []
    for r in rs:
        if math.isnan(r):
            continue
        folded.append(_div(1.0, r) if r > 1 else r)
    return min(folded)


def _data(case):
    yt = np.asarray(case["y_true"])
    yp = np.asarray(case["y_pred"])
    g = list(case["groups"])
    n = len(yt)
    w = case.get("w")
    wv = np.ones(n) if w is None else np.asarray(w, dtype=float)
    masks = {}
    for lab in M.observed_levels(g):
        k = M.norm(lab)
        masks[k] = np.array([M.norm(x) == k for x in g])
    return yt, yp, g, wv, masks


def _inputs(case):
    kind = case.get("kind", "list")
    # the binary labels are 0/1 or (coding "m11") -1/+1: 1 is the positive class in both, as documented
    enc = (lambda v: [x if x == 1 else -1 for x in v]) if case.get("coding") == "m11" else (lambda v: v)
    yt = gen.wrap_vector(case.get("yt_kind", kind), enc(case["y_true"]), case.get("index", "default"))
    yp = gen.wrap_vector(case.get("yp_kind", kind), enc(case["y_pred"]), case.get("index2", "default"))
    sf = gen.wrap_vector(case.get("sf_kind", "list"), case["groups"], case.get("index3", "default"), name="sf")
    kw = {"sensitive_features": sf}
    if case.get("w") is not None:
        kw["sample_weight"] = gen.wrap_vector(case.get("w_kind", "list"), case["w"], case.get("index2", "default"))
    return yt, yp, kw


def _scalar(name, v):
    if np.ndim(v) != 0:
        raise PropertyViolation(f"{name} returned a non-scalar {v!r}")
    return float(v)


def _eo_combine(t, f, agg, kind):
    """Expected EO value and whether it lies in the weak (NaN component) region."""
    if math.isnan(t) or math.isnan(f):
        return None
    if agg == "mean":
        return (t + f) / 2
    return max(t, f) if kind == "diff" else min(t, f)


def check_named(case):
    import fairlearn.metrics as fm

    yt, yp, g, wv, masks = _data(case)
    n = len(yt)
    allm = np.ones(n, dtype=bool)
    per = {k: _rates(yt, yp, wv, m) for k, m in masks.items()}
    ov = _rates(yt, yp, wv, allm)
    Yt, Yp, kw = _inputs(case)
    tags = set()
    for method in ("between_groups", "to_overall"):
        exp = {}
        for r in ("sel", "tpr", "fpr"):
            vals = [per[k][r] for k in per]
            exp[r, "diff"] = _difference(vals, ov[r], method)
            exp[r, "ratio"] = _ratio(vals, ov[r], method)
        calls = {
            "demographic_parity_difference": exp["sel", "diff"],
            "demographic_parity_ratio": exp["sel", "ratio"],
            "equal_opportunity_difference": exp["tpr", "diff"],
            "equal_opportunity_ratio": exp["tpr", "ratio"],
            # the generated functions for the same rates must agree as well
            "selection_rate_difference": exp["sel", "diff"],
            "selection_rate_ratio": exp["sel", "ratio"],
            "true_positive_rate_difference": exp["tpr", "diff"],
            "true_positive_rate_ratio": exp["tpr", "ratio"],
            "false_positive_rate_difference": exp["fpr", "diff"],
            "false_positive_rate_ratio": exp["fpr", "ratio"],
        }
        for fname, e in calls.items():
            got = _scalar(fname, getattr(fm, fname)(Yt, Yp, method=method, **kw))
            if not M.close(got, e):
                raise PropertyViolation(
                    f"{fname}(method={method}) = {got!r}, first-principles value {e!r}; per-group rates {per}, overall {ov}"
                )
        for agg in ("worst_case", "mean"):
            for kind, fname in (("diff", "equalized_odds_difference"), ("ratio", "equalized_odds_ratio")):
                got = _scalar(fname, getattr(fm, fname)(Yt, Yp, method=method, agg=agg, **kw))
                t, f = exp["tpr", kind], exp["fpr", kind]
                e = _eo_combine(t, f, agg, kind)
                if e is None:
                    tags.add("eo_nan_component")
                    ok = math.isnan(got) or any(M.close(got, c) for c in (t, f) if not math.isnan(c))
                    if not ok:
                        raise PropertyViolation(f"{fname}(method={method}, agg={agg}) = {got!r} with components tpr {t!r}, fpr {f!r}")
                elif not M.close(got, e):
                    raise PropertyViolation(
                        f"{fname}(method={method}, agg={agg}) = {got!r}, expected {e!r} from TPR disparity {t!r} and FPR disparity {f!r}; per-group rates {per}, overall {ov}"
                    )
    # documented defaults (method="between_groups", agg="worst_case") - called after the explicit
    # to_overall calls above, so a result that depends on an earlier call of the same function shows up
    dflt = {}
    for r in ("sel", "tpr", "fpr"):
        vals = [per[k][r] for k in per]
        dflt[r, "diff"] = _difference(vals, ov[r], "between_groups")
        dflt[r, "ratio"] = _ratio(vals, ov[r], "between_groups")
    defaults = {
        "demographic_parity_difference": dflt["sel", "diff"], "demographic_parity_ratio": dflt["sel", "ratio"],
        "equal_opportunity_difference": dflt["tpr", "diff"], "equal_opportunity_ratio": dflt["tpr", "ratio"],
        "selection_rate_difference": dflt["sel", "diff"], "selection_rate_ratio": dflt["sel", "ratio"],
        "true_positive_rate_difference": dflt["tpr", "diff"], "true_positive_rate_ratio": dflt["tpr", "ratio"],
        "false_positive_rate_difference": dflt["fpr", "diff"], "false_positive_rate_ratio": dflt["fpr", "ratio"],
        "equalized_odds_difference": _eo_combine(dflt["tpr", "diff"], dflt["fpr", "diff"], "worst_case", "diff"),
        "equalized_odds_ratio": _eo_combine(dflt["tpr", "ratio"], dflt["fpr", "ratio"], "worst_case", "ratio"),
    }
    for fname, e in defaults.items():
        got = _scalar(fname, getattr(fm, fname)(Yt, Yp, **kw))
        if e is None:
            continue  # NaN component of equalized odds: not defined by the property
        if not M.close(got, e):
            raise PropertyViolation(
                f"{fname} called with default method/agg (after a to_overall call) = {got!r}, between_groups/worst_case value from first principles {e!r}; per-group rates {per}, overall {ov}"
            )
    # the same argument objects after an in-place update of the predictions: results follow the current contents
    if case.get("mutate") and n >= 1:
        flipped = [1 - int(v) for v in case["y_pred"]]
        flipped_enc = [x if x == 1 else -1 for x in flipped] if case.get("coding") == "m11" else flipped
        if isinstance(Yp, list):
            Yp[:] = flipped_enc
        elif isinstance(Yp, np.ndarray):
            if Yp.flags.writeable:
                Yp[...] = np.asarray(flipped_enc).reshape(Yp.shape)
            else:
                Yp = np.asarray(flipped_enc).reshape(Yp.shape)
        elif isinstance(Yp, pd.Series):
            Yp.iloc[:] = flipped_enc
        else:
            Yp.iloc[:, 0] = flipped_enc
        yp2 = np.asarray(flipped)
        per2 = {k: _rates(yt, yp2, wv, m) for k, m in masks.items()}
        ov2 = _rates(yt, yp2, wv, allm)
        for method in ("between_groups", "to_overall"):
            e2 = {}
            for r in ("sel", "tpr", "fpr"):
                vals = [per2[k][r] for k in per2]
                e2[r, "diff"] = _difference(vals, ov2[r], method)
                e2[r, "ratio"] = _ratio(vals, ov2[r], method)
            checks = [("demographic_parity_difference", {}, e2["sel", "diff"]),
                      ("equal_opportunity_ratio", {}, e2["tpr", "ratio"]),
                      ("false_positive_rate_difference", {}, e2["fpr", "diff"])]
            for agg in ("worst_case", "mean"):
                checks.append(("equalized_odds_difference", {"agg": agg}, _eo_combine(e2["tpr", "diff"], e2["fpr", "diff"], agg, "diff")))
                checks.append(("equalized_odds_ratio", {"agg": agg}, _eo_combine(e2["tpr", "ratio"], e2["fpr", "ratio"], agg, "ratio")))
            for fname, extra, e in checks:
                if e is None:
                    continue
                got = _scalar(fname, getattr(fm, fname)(Yt, Yp, method=method, **extra, **kw))
                if not M.close(got, e):
                    raise PropertyViolation(f"{fname}(method={method}, {extra}) after the predictions were updated in place = {got!r}, first-principles value on the current contents {e!r}")
        tags.add("inplace_update_then_recall")
    distinct = {tuple(round(v, 12) for v in p.values()) for p in per.values()}
    if len(per) >= 2 and len(distinct) >= 2:
        tags.add("nt")
    if len(per) >= 2:
        tags.add("groups>=2")
    if case.get("coding") == "m11":
        tags.add("coding_-1/+1")
    sizes = [int(m.sum()) for m in masks.values()]
    if case.get("w") is not None:
        tags.add("weighted")
        if max(case["w"]) < 1e-6:
            tags.add("tiny_weights")
        if max(case["w"]) / min(case["w"]) > 1e100:
            tags.add("weights_scale_range>1e100")
        if 1 in sizes:
            tags.add("weighted_singleton_group")
    if 1 in sizes:
        tags.add("singleton_group")
    for k, m in masks.items():
        if (yt[m] == 1).sum() == 0 or (yt[m] == 0).sum() == 0:
            tags.add("empty_rate_denominator")
    return sorted(tags)


# ---- sklearn-derived generated metrics -------------------------------------------------------------

SK_GENERATED = [
    ("accuracy_score", "difference"), ("accuracy_score", "ratio"), ("accuracy_score", "group_min"),
    ("zero_one_loss", "difference"), ("zero_one_loss", "ratio"), ("zero_one_loss", "group_max"),
    ("balanced_accuracy_score", "group_min"), ("precision_score", "group_min"), ("recall_score", "group_min"),
    ("roc_auc_score", "group_min"), ("mean_absolute_error", "group_max"), ("mean_squared_error", "group_max"),
    ("r2_score", "group_min"), ("f1_score", "group_min"), ("log_loss", "group_max"),
    ("true_negative_rate", "difference"), ("true_negative_rate", "ratio"),
    ("false_negative_rate", "difference"), ("false_negative_rate", "ratio"),
]


def _base_fn(name):
    import sklearn.metrics as skm

    import fairlearn.metrics as fm

    return getattr(skm, name, None) or getattr(fm, name)


def check_generated(case):
    import fairlearn.metrics as fm

    yt, yp, g, wv, masks = _data(case)
    n = len(yt)
    base, transform = case["fn"]
    fname = f"{base}_{transform}"
    f = getattr(fm, fname)
    bf = _base_fn(base)
    weighted = case.get("w") is not None
    Yt, Yp, kw = _inputs(case)
    method = case.get("method", "between_groups")
    if transform in ("difference", "ratio"):
        kw["method"] = method
    vals, ref_err = [], None
    xkw = dict(case.get("extra_kw") or {})  # further (non-sample) keyword arguments, forwarded to the base metric
    kw.update(xkw)
    with warnings.catch_warnings():
        warnings.simplefilter("ignore")
        try:
            for k, m in masks.items():
                a = {"sample_weight": wv[m]} if weighted else {}
                vals.append(float(bf(yt[m], yp[m], **a, **xkw)))
            a = {"sample_weight": wv} if weighted else {}
            overall = float(bf(yt, yp, **a, **xkw))
        except Exception as e:  # noqa: BLE001  the base metric is undefined on some group
            ref_err = e
        try:
            if transform in ("difference", "ratio") and case.get("prior_call"):
                # a previous call with the other method must not influence this one; with
                # use_default the method is then left to its documented default (between_groups)
                other = "to_overall" if method == "between_groups" else "between_groups"
                f(Yt, Yp, **dict(kw, method=other))
                if case.get("use_default") and method == "between_groups":
                    kw.pop("method")
            got = f(Yt, Yp, **kw)
            got_err = None
        except Exception as e:  # noqa: BLE001
            got, got_err = None, e
    tags = {"fn:" + base}
    if ref_err is not None:
        tags.add("base_metric_raises")
        # overall raising while every group is fine is possible too (computed lazily by fairlearn? no:
        # MetricFrame always computes overall) - either way fairlearn must raise
        if got_err is None:
            raise PropertyViolation(f"{fname}: base metric raises {type(ref_err).__name__} on a group ({ref_err}) but the function returned {got!r}")
        return sorted(tags)
    if got_err is not None:
        raise PropertyViolation(f"{fname} raised {type(got_err).__name__}: {got_err} although the base metric is defined on every group")
    got = _scalar(fname, got)
    if any(math.isnan(v) for v in vals) or math.isnan(overall):
        tags.add("nan_group_value")
        return sorted(tags)
    if transform == "group_min":
        e = min(vals)
    elif transform == "group_max":
        e = max(vals)
    elif transform == "difference":
        e = _difference(vals, overall, method)
    else:
        e = _ratio(vals, overall, method)
        if any(v < 0 for v in vals) or overall < 0:
            tags.add("negative_ratio_region")
            return sorted(tags)
    if not M.close(got, e):
        raise PropertyViolation(f"{fname}(method={method}) = {got!r}, first-principles {e!r}; group values {vals}, overall {overall}")
    if len(set(round(v, 12) for v in vals)) >= 2:
        tags.add("nt")
    if weighted:
        tags.add("weighted")
    if xkw:
        tags.add("extra_keyword")
    if any(not v for v in xkw.values()):
        tags.add("falsy_extra_keyword")
    return sorted(tags)


EXTRA_KW = {
    "accuracy_score": [{"normalize": False}, {"normalize": True}],
    "zero_one_loss": [{"normalize": False}],
    "precision_score": [{"pos_label": 0}, {"zero_division": 0}, {"zero_division": 1}, {"pos_label": 0, "zero_division": 1}],
    "recall_score": [{"pos_label": 0}, {"zero_division": 1}],
    "f1_score": [{"pos_label": 0}, {"zero_division": 1}],
    "balanced_accuracy_score": [{"adjusted": True}, {"adjusted": False}],
    "true_negative_rate": [{"pos_label": 0}, {"pos_label": 1}],
    "false_negative_rate": [{"pos_label": 0}],
    "mean_squared_error": [{"multioutput": "uniform_average"}],
    "log_loss": [{"normalize": False}],
}


def check_named_huge(case):
    """Named fairness metrics on a million (and more) weighted rows against numpy rates."""
    import fairlearn.metrics as fm

    rs = np.random.RandomState(case["seed"])
    n, G = case["n"], case["groups"]
    g = rs.randint(0, G, size=n)
    yt = rs.randint(0, 2, size=n)
    yp = (rs.rand(n) < 0.2 + 0.2 * g).astype(int)
    w = rs.randint(1, 4, size=n).astype(float) * case["wscale"]
    sel = [float(w[(g == k) & (yp == 1)].sum() / w[g == k].sum()) for k in range(G)]
    ov = float(w[yp == 1].sum() / w.sum())
    tpr = [float(w[(g == k) & (yp == 1) & (yt == 1)].sum() / w[(g == k) & (yt == 1)].sum()) for k in range(G)]
    tov = float(w[(yp == 1) & (yt == 1)].sum() / w[yt == 1].sum())
    for method in ("between_groups", "to_overall"):
        exp = {"demographic_parity_difference": _difference(sel, ov, method), "demographic_parity_ratio": _ratio(sel, ov, method),
               "equal_opportunity_difference": _difference(tpr, tov, method)}
        for name, e in exp.items():
            got = _scalar(name, getattr(fm, name)(yt, yp, sensitive_features=g, sample_weight=w, method=method))
            if not M.close(got, e):
                raise PropertyViolation(f"{name}(method={method}) on {n} weighted rows = {got!r}, first-principles {e!r}; group rates {sel}, overall {ov}")
    return ["nt"]


@st.composite
def _named_huge_cases(draw):
    return {"n": draw(st.sampled_from([1000000, 1000001, 1048576])), "groups": draw(st.integers(2, 3)), "seed": draw(st.integers(0, 2**31 - 1)),
            "wscale": draw(st.sampled_from([1.0, 0.5, 3.0]))}


# ---- make_derived_metric -----------------------------------------------------------------------------


def m_scaled(y_true, y_pred, sample_weight=None, scale=1.0, shift=0.0, normalize=True):
    yp = np.asarray(y_pred, dtype=float)
    w = np.ones(len(yp)) if sample_weight is None else np.asarray(sample_weight, dtype=float)
    if not normalize:
        return float(scale * np.sum(w * yp) + shift)
    return float(scale * np.sum(w * yp) / np.sum(w) + shift)


def m_extra(y_true, y_pred, sample_weight=None, extra=None, scale=1.0):
    yp = np.asarray(y_pred, dtype=float)
    w = np.ones(len(yp)) if sample_weight is None else np.asarray(sample_weight, dtype=float)
    e = np.zeros(len(yp)) if extra is None else np.asarray(extra, dtype=float)
    return float(scale * np.sum(w * (yp + 10 * e)) / np.sum(w))


def check_derived(case):
    from fairlearn.metrics import MetricFrame, make_derived_metric

    yt, yp, g, wv, masks = _data(case)
    n = len(yt)
    weighted = case.get("w") is not None
    which = case["metric"]
    transform = case["transform"]
    method = case.get("method", "between_groups")
    bound = dict(case.get("bound", {}))
    extra = case.get("extra")
    if which == "scaled":
        fn, spn = m_scaled, ["sample_weight"]
    else:
        fn, spn = m_extra, ["sample_weight", "extra"]
    dm = make_derived_metric(metric=fn, transform=transform, sample_param_names=spn)
    Yt, Yp, kw = _inputs(case)
    sf = kw.pop("sensitive_features")
    call_kw = dict(bound)
    sample_params = {}
    if weighted:
        sample_params["sample_weight"] = kw["sample_weight"]
    if which == "extra" and extra is not None:
        sample_params["extra"] = gen.wrap_vector(case.get("w_kind", "list"), extra, case.get("index", "default"))
    call_kw.update(sample_params)
    if transform in ("difference", "ratio"):
        call_kw["method"] = method
    if transform in ("difference", "ratio") and case.get("prior_call"):
        other = "to_overall" if method == "between_groups" else "between_groups"
        dm(Yt, Yp, sensitive_features=sf, **dict(call_kw, method=other))
        if case.get("use_default") and method == "between_groups":
            call_kw.pop("method")
    got = _scalar("derived metric", dm(Yt, Yp, sensitive_features=sf, **call_kw))

    # first principles
    def val(mask):
        a = dict(bound)
        if weighted:
            a["sample_weight"] = wv[mask]
        if which == "extra" and extra is not None:
            a["extra"] = np.asarray(extra, dtype=float)[mask]
        return fn(yt[mask], yp[mask], **a)

    vals = [val(m) for m in masks.values()]
    overall = val(np.ones(n, dtype=bool))
    tags = set()
    if transform == "group_min":
        e = min(vals)
    elif transform == "group_max":
        e = max(vals)
    elif transform == "difference":
        e = _difference(vals, overall, method)
    else:
        e = _ratio(vals, overall, method)
        if any(v < 0 for v in vals) or overall <= 0:
            e = None
            tags.add("ratio_weak_region")
    if e is not None and not M.close(got, e):
        raise PropertyViolation(f"make_derived_metric({fn.__name__},{transform})(method={method}, bound={bound}) = {got!r}, first-principles {e!r}; groups {vals}, overall {overall}")
    # differential: the equivalent MetricFrame call
    mf = MetricFrame(metrics=functools.partial(fn, **bound), y_true=Yt, y_pred=Yp, sensitive_features=sf,
                     sample_params=sample_params or None)
    if transform == "group_min":
        ref = mf.group_min()
    elif transform == "group_max":
        ref = mf.group_max()
    elif transform == "difference":
        ref = mf.difference(method=method)
    else:
        ref = mf.ratio(method=method)
    if not M.close(got, ref):
        raise PropertyViolation(f"derived metric = {got!r} but the equivalent MetricFrame call gives {ref!r}")
    if len(set(round(v, 12) for v in vals)) >= 2:
        tags.add("nt")
    if bound:
        tags.add("bound_params")
    if any(not v for v in bound.values()):
        tags.add("falsy_bound_param")
    if weighted:
        tags.add("weighted")
    if which == "extra" and extra is not None:
        tags.add("second_sample_param")
    return sorted(tags)


# ---- strategies ----------------------------------------------------------------------------------------

GROUP_LABELS = [["a", "b", "c", "d"], [0, 1, 2, 3], [3, 1, 7, 5], ["x", "", "y y", "z"]]


@st.composite
def _dataset(draw, max_n=14):
    labels = draw(st.sampled_from(GROUP_LABELS))
    k = draw(st.integers(1, 4))
    sizes = [draw(st.sampled_from([1, 1, 2, 3, 4])) for _ in range(k)]
    while sum(sizes) > max_n:
        sizes[sizes.index(max(sizes))] -= 1
    groups = []
    for lab, s in zip(labels, sizes):
        groups += [lab] * s
    n = len(groups)
    perm = draw(st.permutations(range(n)))
    groups = [groups[i] for i in perm]
    mode = draw(st.sampled_from(["free", "free", "free", "no_pos_in_first", "pred_zero"]))
    yt = draw(st.lists(st.integers(0, 1), min_size=n, max_size=n))
    yp = draw(st.lists(st.integers(0, 1), min_size=n, max_size=n))
    if mode == "no_pos_in_first":
        v = draw(st.integers(0, 1))
        yt = [v if gi == labels[0] else y for gi, y in zip(groups, yt)]
    if mode == "pred_zero":
        yp = [0] * n
    w = draw(st.one_of(st.none(), st.lists(gen.int_weights.map(float), min_size=n, max_size=n),
                       st.lists(gen.real_weights, min_size=n, max_size=n)))
    if w is not None and draw(st.integers(0, 5)) == 0:
        w = [x * 1e-10 for x in w]  # positive weights on a tiny scale (e.g. normalised densities)
    elif w is not None and draw(st.integers(0, 5)) == 0:
        # weights on very different scales from group to group (1e-150 .. 1e150): within a group only ratios matter
        expo = {lab: draw(st.sampled_from([-150, 0, 150, 200, -122])) for lab in labels}
        w = [x * 10.0 ** expo[gi] for x, gi in zip(w, groups)]
    return {
        "y_true": yt, "y_pred": yp, "groups": groups, "w": w,
        "kind": draw(st.sampled_from(["list", "ndarray", "series"])),
        "sf_kind": draw(st.sampled_from(["list", "ndarray", "series", "dataframe"])),
        "w_kind": draw(st.sampled_from(["list", "ndarray", "series"])),
        "index": draw(gen.index_plan), "index2": draw(gen.index_plan), "index3": draw(gen.index_plan),
        "mutate": draw(st.booleans()),
        "coding": draw(st.sampled_from(["01", "01", "m11"])),
    }


@st.composite
def _generated_case(draw):
    c = draw(_dataset())
    c["coding"] = "01"  # the sklearn-derived references below work on the 0/1 values
    c["fn"] = list(draw(st.sampled_from(SK_GENERATED)))
    if c["fn"][0] in EXTRA_KW and draw(st.booleans()):
        c["extra_kw"] = draw(st.sampled_from(EXTRA_KW[c["fn"][0]]))
    c["method"] = draw(st.sampled_from(["between_groups", "to_overall"]))
    c["prior_call"] = draw(st.booleans())
    c["use_default"] = draw(st.booleans())
    return c


@st.composite
def _derived_case(draw):
    c = draw(_dataset())
    n = len(c["y_true"])
    c["coding"] = "01"
    c["metric"] = draw(st.sampled_from(["scaled", "extra"]))
    c["transform"] = draw(st.sampled_from(["difference", "ratio", "group_min", "group_max"]))
    c["method"] = draw(st.sampled_from(["between_groups", "to_overall"]))
    bound = {}
    if draw(st.booleans()):
        bound["scale"] = draw(st.sampled_from([2.0, 0.5, 3.0, 0.0, -1.0]))
    if c["metric"] == "scaled" and draw(st.booleans()):
        bound["shift"] = draw(st.sampled_from([1.0, 0.25, 0.0, -0.5]))
    if c["metric"] == "scaled" and draw(st.integers(0, 3)) == 0:
        bound["normalize"] = draw(st.booleans())  # explicit False / 0 / 0.0 are values, not "unset"
    c["bound"] = bound
    if c["metric"] == "extra":
        c["extra"] = draw(st.one_of(st.none(), st.lists(st.integers(0, 3).map(float), min_size=n, max_size=n)))
    c["prior_call"] = draw(st.booleans())
    c["use_default"] = draw(st.booleans())
    return c


def _enumerate_named(tier):
    nmax = 2 if tier == "quick" else 3
    for n in range(1, nmax + 1):
        bits = list(itertools.product((0, 1), repeat=n))
        grps = list(itertools.product((0, 1, 2), repeat=n))
        wsets = [None] + [list(map(float, w)) for w in itertools.product((1, 2), repeat=n)]
        for yt in bits:
            for yp in bits:
                for g in grps:
                    for w in wsets:
                        yield {"y_true": list(yt), "y_pred": list(yp), "groups": list(g), "w": w,
                               "kind": "ndarray" if sum(g) % 2 else "list", "sf_kind": "list", "w_kind": "list"}
    if tier == "thorough":
        n = 4
        bits = list(itertools.product((0, 1), repeat=n))
        for yt in bits:
            for yp in bits:
                for g in itertools.product((0, 1), repeat=n):
                    yield {"y_true": list(yt), "y_pred": list(yp), "groups": list(g), "w": None,
                           "kind": "list", "sf_kind": "ndarray", "w_kind": "list"}


SUBS = [
    Sub("named_random", check_named, strategy=_dataset, quick=500, thorough=5000, shards=16,
        floors={"nt": 0.232, "singleton_group": 0.285, "weighted": 0.249, "weighted_singleton_group": 0.15,
                "empty_rate_denominator": 0.2}),
    Sub("named_exhaustive", check_named, enumerate=_enumerate_named, shards=16, exhaustive=True),
    Sub("generated_random", check_generated, strategy=_generated_case, quick=700, thorough=8000, shards=16,
        floors={"nt": 0.19}),
    Sub("derived_random", check_derived, strategy=_derived_case, quick=500, thorough=6000, shards=8,
        floors={"nt": 0.208, "bound_params": 0.225, "weighted": 0.263}),
    Sub("named_huge", check_named_huge, strategy=_named_huge_cases, quick=3, thorough=16, shards=3, shrink_quick=False),
]
