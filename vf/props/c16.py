"""C16 - adversarial training applies the documented projected-gradient update (PyTorch engine).

Procedure per case: build AdversarialFairnessClassifier/Regressor(backend="torch") with plain-SGD
optimisers, partial_fit(batch 1) to set the networks up, deep-copy predictor and adversary,
partial_fit(batch 2), and compare the observed change of every parameter tensor with

    dW = -lr_p * ( dLP/dW - <dLP/dW, dLA/dW>_F / ||dLA/dW||_F^2 * dLA/dW - alpha * dLA/dW )
    dU = -lr_a * dLA/dU

where the three gradients come from float64 autograd on the deep copies with first-principles
encodings and losses (vf.advcommon); no projection term on a tensor with dLA/dW == 0.  Independently
of the reference dLP: g_obs = -dW/lr_p satisfies <g_obs + alpha*dLA, dLA>_F ~ 0.
"""

from __future__ import annotations

import copy

import numpy as np
from hypothesis import strategies as st

from vf import advcommon as AC
from vf.runner import PropertyViolation, Skip, Sub

PROPERTY = "C16"
LEVEL = "exploration"
RULE = (
    "Hypothesis draws the target type (binary / 3-4 classes / continuous) and the sensitive-feature type "
    "(binary / multiclass / one or two continuous columns) with a label encoding (ints, strings, unsorted "
    "orders), two batches of 2..8 rows x 2..5 features (one-decimal or integer entries; the second batch "
    "all zero in ~10 % of the cases, and in ~5 % a dead-ReLU adversary, so that dLA/dW == 0 tensors occur; with a binary "
    "target and a predictor without hidden layers, in a quarter of the cases one positive-class row of the second batch is "
    "moved along the weight vector to a logit of -17.5..-23.5, a confidently wrong row), predictor and adversary as keyword lists (0..2 hidden layers of width 1..6, "
    "optional 'leaky_relu' / 'sigmoid' / 'relu' / nn.Tanh() between) or pre-built nn.Sequential modules "
    "with drawn weights (with or without biases), SGD given as keyword, constructor or instance with "
    "separate learning rates in [0.05, 0.5], alpha in [0, 3] (0 included), demographic parity or equalized "
    "odds. Non-trivial: some predictor weight matrix with >= 2 rows has dLA/dW != 0 (there the sum of "
    "all pairwise row products differs from the Frobenius product). Distinct = distinct canonical JSON."
)
ASSUMPTIONS = [
    "torch autograd and the forward pass of the user-visible networks are trusted; the engine's own "
    "gradient bookkeeping, loss choice, encodings, projection and optimiser wiring are not",
    "comparison per tensor: |dW_obs - dW_exp| <= 1e-4*lr*max(max|g_exp|, ||dLP|| + alpha*max|dLA|) + 1e-5*lr + "
    "2.4e-7*max(|W|,1) + lr*e_g, e_g = e_dLP + 2*||dLP||*min(1, e_dLA/||dLA||) + alpha*e_dLA, where e_x = 8*||x_float32 - "
    "x_float64|| + 1e-7*||x|| is the measured float32 resolution of the first-principles gradient (float32 "
    "cancellation between the three terms, rounding of the stored weights, direction error of a dLA that is tiny by "
    "cancellation); "
    "adversary: 1e-4*max|dU_exp| + 1e-5*lr + 2.4e-7*max(|U|,1); orthogonality |<v,dLA>| <= (1e-4*max(||v||,||g_obs||,alpha*||dLA||,||dLP||) + (1e-5 + 2.4e-7*max|W|/lr)*sqrt(numel))*||dLA||",
    "cases where a non-zero dLA/dW has Frobenius norm < 1e-12 (below float32 resolution of the engine) or a "
    "sigmoid output is within 1e-6 of 1 (float32 rounds it to 1 and the log loss gradient vanishes) are skipped",
    "only the PyTorch engine is executed (TensorFlow is not installed)",
]


def _need(ok, msg):
    if not ok:
        raise PropertyViolation(msg)


def _rows(lo, hi):
    return list(range(lo, hi))


def check(case):
    import torch

    ycol, acol = case["y"], case["a"]
    n1, n2 = case["n1"], case["n2"]
    X = np.asarray(case["X"], dtype=float)
    b1, b2 = _rows(0, n1), _rows(n1, n1 + n2)
    pass_y = case["constraints"] == "equalized_odds"
    alpha = float(case["alpha"])

    est, lr_p, lr_a = AC.make_estimator(case)
    kind = case.get("container", "ndarray")

    def fit_batch(rows, first):
        kw = {}
        if (first or case.get("classes_every_call")) and case.get("pass_classes") and ycol["type"] != "cont":
            kw["classes"] = np.asarray(sorted(AC.LABELS[ycol["enc"]]))
        est.partial_fit(
            X[rows],
            AC.wrap(AC.raw_values(ycol, rows), kind),
            sensitive_features=AC.wrap(AC.raw_values(acol, rows), kind),
            **kw,
        )

    fit_batch(b1, True)
    if case.get("predict_between"):
        est.predict(X[b1])  # inference between two training steps: the next step trains in training mode again
    if case.get("alpha2") is not None:
        # alpha re-tuned between steps (as the fine-tuning example does from a callback): the next step must use
        # the estimator's *current* alpha
        alpha = float(case["alpha2"])
        if case.get("alpha_via") == "attr":
            est.alpha = alpha
        else:
            est.set_params(alpha=alpha)
    eng = est.backendEngine_
    P, A = eng.predictor_model, eng.adversary_model
    _need(isinstance(P, torch.nn.Module) and isinstance(A, torch.nn.Module), "engine models are not torch modules")

    # architecture built from the keyword list: the documented layer sizes
    ky, ka = AC.width(ycol), AC.width(acol)
    for name, model, spec, n_in, n_out in (
        ("predictor", P, case["pred"], case["n_features"], ky),
        ("adversary", A, case["adv"], ky * (2 if pass_y else 1), ka),
    ):
        shapes = [tuple(p.shape) for p in model.parameters()]
        exp = AC.expected_linear_shapes(spec, n_in, n_out)
        _need(shapes == exp, f"{name} parameter shapes {shapes} != documented layer sizes {exp}")

    P0, A0 = copy.deepcopy(P), copy.deepcopy(A)
    W0, U0 = AC.params_of(P), AC.params_of(A)
    for t in W0 + U0:
        _need(bool(torch.isfinite(t).all()), "parameters are not finite after the first step")

    saturated = False
    if case.get("saturate") is not None and ycol["type"] == "binary" and not case["pred"]["hidden"]:
        # a confidently wrong row: a positive-class row of the second batch is moved along the weight vector until its
        # logit is the drawn value in [-24, -17] (sigmoid ~1e-8..1e-11, representable in float32): the log loss has its
        # largest gradient there (dLP/dlogit = p - 1 ~ -1)
        Yb = AC.encode(ycol, b2)[:, 0]
        pos_rows = [r for r, v in zip(b2, Yb) if v == 1.0]
        lin = [m for m in P0.modules() if isinstance(m, torch.nn.Linear)][0]
        wv = lin.weight.detach().double().numpy()[0]
        bv = float(lin.bias.detach().double().numpy()[0]) if lin.bias is not None else 0.0
        if pos_rows and float(wv @ wv) > 1e-6:
            r = pos_rows[0]
            X[r] = X[r] + (float(case["saturate"]) - (float(wv @ X[r]) + bv)) * wv / float(wv @ wv)
            saturated = True

    fit_batch(b2, False)
    W1, U1 = AC.params_of(eng.predictor_model), AC.params_of(eng.adversary_model)

    Yenc, Aenc = AC.encode(ycol, b2), AC.encode(acol, b2)
    gP, gAW, gAU, LP, LA, margin = AC.reference_gradients(
        P0, A0, X[b2], Yenc, Aenc, ycol["type"], acol["type"], pass_y)
    if not (np.isfinite(LP) and np.isfinite(LA)):
        raise Skip("reference loss not finite")
    if margin < 1e-6:
        raise Skip("a sigmoid output is within 1e-6 of 1 (not representable in the engine's float32)")

    tags = ["confidently_wrong_row"] if saturated else []
    # float32 resolution of these gradients, measured: the same first-principles computation in float32
    # against float64.  On a tensor whose dLA is tiny by cancellation the *direction* dLA/||dLA|| is only
    # known to dir_err, and the projection inherits that error (tolerances only; never the expected value).
    gP32, gAW32, _, _, _, _ = AC.reference_gradients(
        P0, A0, X[b2], Yenc, Aenc, ycol["type"], acol["type"], pass_y, single=True)
    nt = False
    zero_branch = zero_any = False
    for i, (w0, w1, dp, da) in enumerate(zip(W0, W1, gP, gAW)):
        na = float(torch.linalg.vector_norm(da))
        if na == 0.0:
            g = dp.clone()
            zero_any = True
            if float(torch.linalg.vector_norm(dp)) > 0:
                zero_branch = True
        else:
            if na < 1e-12:
                raise Skip("non-zero dLA/dW below float32 resolution")
            g = dp - (torch.sum(dp * da) / (na * na)) * da - alpha * da
        d_exp = -lr_p * g
        d_obs = w1 - w0
        wmax = float(w0.abs().max()) if w0.numel() else 0.0
        # float32 error of the engine scales with the magnitude of the *terms* (dLP, its projection,
        # alpha*dLA), which can cancel almost completely when dLP is parallel to dLA
        ndp = float(torch.linalg.vector_norm(dp))
        terms = ndp + alpha * float(da.abs().max()) if da.numel() else 0.0
        e_da = 8.0 * float(torch.linalg.vector_norm(gAW32[i] - da)) + 1e-7 * na
        e_dp = 8.0 * float(torch.linalg.vector_norm(gP32[i] - dp)) + 1e-7 * ndp
        if not (np.isfinite(e_da) and np.isfinite(e_dp)):
            raise Skip("float32 evaluation of the reference gradients is not finite")
        dir_err = min(1.0, e_da / na) if na > 0.0 else 0.0
        e_g = e_dp + 2.0 * ndp * dir_err + alpha * e_da
        tol = (1e-4 * lr_p * max(float(g.abs().max()), terms) + lr_p * e_g
               + 1e-5 * lr_p + 2.4e-7 * max(wmax, 1.0))
        dev = float((d_obs - d_exp).abs().max())
        if not (dev <= tol):
            raise PropertyViolation(
                f"predictor tensor {i} shape {tuple(w0.shape)}: observed change deviates from "
                f"-lr*(dLP - proj_dLA(dLP) - alpha*dLA) by {dev!r} (tolerance {tol!r}); "
                f"observed {d_obs.flatten().tolist()[:8]} expected {d_exp.flatten().tolist()[:8]}; lr={lr_p}, alpha={alpha}"
            )
        if na > 0.0:
            # orthogonality, independent of the reference dLP
            g_obs = -d_obs / lr_p
            v = g_obs + alpha * da
            ip = float(torch.sum(v * da))
            nv = float(torch.linalg.vector_norm(v))
            # the error of g_obs scales with the whole update (incl. the alpha*dLA part), not with ||v||
            ng = max(nv, float(torch.linalg.vector_norm(g_obs)), alpha * na, ndp)
            bound = nv * e_da + (1e-4 * ng + e_g + (1e-5 + 2.4e-7 * max(wmax, 1.0) / lr_p) * np.sqrt(w0.numel())) * na
            if not (abs(ip) <= bound):
                raise PropertyViolation(
                    f"predictor tensor {i} shape {tuple(w0.shape)}: <g_obs + alpha*dLA, dLA>_F = {ip!r} "
                    f"(bound {bound!r}; ||v||={nv!r}, ||dLA||={na!r}, ||g_obs||={float(torch.linalg.vector_norm(g_obs))!r}): the applied update is not dLP minus its Frobenius projection on dLA"
                )
            if w0.dim() == 2 and w0.shape[0] >= 2:
                nt = True
    for i, (u0, u1, du) in enumerate(zip(U0, U1, gAU)):
        d_exp = -lr_a * du
        d_obs = u1 - u0
        umax = float(u0.abs().max()) if u0.numel() else 0.0
        tol = 1e-4 * float(d_exp.abs().max()) + 1e-5 * lr_a + 2.4e-7 * max(umax, 1.0)
        dev = float((d_obs - d_exp).abs().max())
        if not (dev <= tol):
            raise PropertyViolation(
                f"adversary tensor {i} shape {tuple(u0.shape)}: observed change deviates from -lr*dLA/dU by "
                f"{dev!r} (tolerance {tol!r}); observed {d_obs.flatten().tolist()[:8]} expected {d_exp.flatten().tolist()[:8]}"
            )

    if nt:
        tags.append("nt")
    tags.append("eo" if pass_y else "dp")
    tags.append("y_" + ycol["type"])
    tags.append("a_" + acol["type"])
    if case["pred"]["hidden"]:
        tags.append("pred_hidden")
    if case["adv"]["hidden"]:
        tags.append("adv_hidden")
    if case["pred"]["kind"] == "module" or case["adv"]["kind"] == "module":
        tags.append("module")
    if case.get("predict_between") and "mode_scale" in case["pred"]["acts"]:
        tags.append("mode_dependent_layer_after_predict")
    if zero_any:
        tags.append("zero_dLA_tensor")
    if zero_branch:
        tags.append("zero_dLA_nonzero_dLP")
    if alpha == 0.0:
        tags.append("alpha0")
    if case.get("alpha2") is not None and float(case["alpha2"]) != float(case["alpha"]):
        tags.append("alpha_changed_between_steps")
    if "instance" in (case["pred_opt"], case["adv_opt"]):
        tags.append("opt_instance")
    if "callable" in (case["pred_opt"], case["adv_opt"]):
        tags.append("opt_callable")
    return tags


# ---- strategy --------------------------------------------------------------------------------------------

_ACTS = ("leaky_relu", "sigmoid", None, "leaky_relu", "relu", "tanh_instance")


@st.composite
def _cases(draw):
    ytype = draw(st.sampled_from(["binary", "binary", "multi", "cont"]))
    atype = draw(st.sampled_from(["binary", "binary", "multi", "cont", "cont2"]))
    lo1 = max(AC.min_batch(ytype, True), AC.min_batch(atype, True), 2)
    lo2 = max(AC.min_batch(ytype, False), AC.min_batch(atype, False), 2)
    n1 = draw(st.integers(lo1, 8))
    n2 = draw(st.integers(lo2, 8))
    nf = draw(st.integers(2, 5))
    y = draw(AC.column(ytype, [n1, n2]))
    a = draw(AC.column(atype, [n1, n2]))
    decimal = draw(st.booleans())
    cell = st.integers(-20, 20).map(lambda t: t / 10.0) if decimal else st.integers(-3, 3).map(float)
    X = [[draw(cell) for _ in range(nf)] for _ in range(n1 + n2)]
    pred = draw(AC.model_spec(acts=_ACTS))
    adv = draw(AC.model_spec(acts=_ACTS))
    # regions where dLA/dW vanishes exactly on a tensor (the 'no projection term' branch)
    zero_mode = draw(st.sampled_from(["none"] * 7 + ["zero_batch", "dead_relu_adv", "dead_relu_adv"]))
    if zero_mode == "zero_batch":
        for r in range(n1, n1 + n2):
            X[r] = [0.0] * nf
        if not pred["hidden"]:
            pred["hidden"], pred["acts"] = [draw(st.integers(1, 4))], [draw(st.sampled_from(_ACTS))]
    elif all(v == 0.0 for r in X[n1:] for v in r):
        X[n1][0] = 1.0
    if zero_mode == "dead_relu_adv":
        adv = {"kind": "module", "hidden": [draw(st.integers(1, 4))], "acts": ["relu"],
               "seed": draw(st.integers(0, 10**6)), "bias": True, "dead_first": True}

    predict_between = draw(st.booleans())
    if pred["kind"] == "module" and pred["hidden"] and draw(st.booleans()):
        pred["acts"][0] = "mode_scale"  # a user module with a mode-dependent layer (cf. dropout / batch normalisation)
    saturate = None
    if ytype == "binary" and zero_mode == "none" and draw(st.integers(0, 3)) == 0:
        pred["hidden"], pred["acts"] = [], []  # logistic-regression predictor: one row is moved to a logit of -17.5..-23.5
        saturate = draw(st.sampled_from([-17.5, -20.0, -23.5]))

    def opt(spec):
        kinds = ["str", "callable", "callable"] + (["instance"] if spec["kind"] == "module" else [])
        return draw(st.sampled_from(kinds))

    lrs = st.sampled_from([0.05, 0.1, 0.25, 0.5])
    return {
        "y": y, "a": a, "n1": n1, "n2": n2, "n_features": nf, "X": X,
        "pred": pred, "adv": adv, "pred_opt": opt(pred), "adv_opt": opt(adv),
        "lr": draw(lrs), "lr_p": draw(lrs), "lr_a": draw(lrs),
        "alpha": draw(st.one_of(st.sampled_from([0.0, 1.0, 0.5, 3.0]), st.floats(0.0, 3.0, allow_nan=False),
                            st.floats(0.0, 3.0, allow_nan=False))),
        "alpha2": draw(st.sampled_from([None, None, 0.0, 0.5, 2.0])),
        "alpha_via": draw(st.sampled_from(["set_params", "attr"])),
        "constraints": draw(st.sampled_from(["demographic_parity", "equalized_odds"])),
        "random_state": draw(st.integers(0, 1000)),
        "container": draw(st.sampled_from(["ndarray", "ndarray", "list", "series"])),
        "pass_classes": draw(st.booleans()),
        "classes_every_call": draw(st.booleans()),  # the scikit-learn loop idiom: partial_fit(..., classes=...) in every call
        "saturate": saturate,
        "predict_between": predict_between,
    }


SUBS = [
    Sub("update", check, strategy=_cases, quick=400, thorough=12000, shards=16, shrink_quick=False,
        floors={"nt": 0.206, "eo": 0.167, "dp": 0.235, "y_binary": 0.2, "y_multi": 0.1, "y_cont": 0.096,
                "a_multi": 0.08, "pred_hidden": 0.284, "adv_hidden": 0.302, "module": 0.2, "zero_dLA_tensor": 0.08, "zero_dLA_nonzero_dLP": 0.04,
                "confidently_wrong_row": 0.02}),
]
