"""C10 - randomised predictors sample from the probability mass function they report.

Oracles: (a) validity of the pmf; (b) ExponentiatedGradient: the positive probability recomputed as the
weights_-weighted mixture of the stored predictors' own outputs, aligned by predictor label; (c)
thresholder: P(1) is a function of (score, group) only, invariant under sub-setting / reordering the query
set and non-decreasing in the score without flip; (d) sampling: frequencies over independent seeds within a
Hoeffding bound of the reported probabilities; reproducibility for a fixed random_state; determinism where
the probability is exactly 0 or 1; (e) histories of predict / _pmf_predict / pickle leave the pmf unchanged.
"""

from __future__ import annotations

import pickle

import math

import numpy as np
import pandas as pd
from hypothesis import strategies as st

from vf.learners import ExactTable, ExactTableRegressor, ScoreColumn
from vf.runner import PropertyViolation, Skip, Sub

PROPERTY = "C10"
LEVEL = "exploration"
RULE = (
    "Fitted models from small generated datasets: ThresholdOptimizer (2..3 groups each with both labels, "
    "tie-heavy scores, 7 constraints x objectives x flip x grid sizes), ExponentiatedGradient with an exact "
    "table learner (5 parity moments, eps, max_iter, with/without LP step) and ExponentiatedGradient regression "
    "with BoundedGroupLoss; query sets = training rows, subsets, duplicates and unseen scores / levels; 4 000 "
    "draws per query row (400 tiles x 10 drawn seeds). Non-trivial: some query row has p in (0.05, 0.95) "
    "(regression: >= 2 positive-weight predictors with different outputs on some row)."
)
ASSUMPTIONS = [
    "per-row |frequency - p| <= 0.08 over 4 000 independent draws (regression branch: 0.2 over 500): Hoeffding false-alarm probability <= 2e-17 per row; "
    "pooled standardised deviation <= 8 sigma",
    "the stored predictors' own predict() is the ground truth for the mixture (their correctness is C08/C09)",
    "fits that raise sklearn's 'sample_weight contains NaN' (all signed weights cancel) yield no model and are skipped",
]

DRAW_TILES, DRAW_SEEDS = 400, 10  # 4 000 draws per query row: a pooled bias of ~0.02 over ten rows is 8 sigma
EPS_P = 0.08  # Hoeffding with 4 000 draws: 2*exp(-2*4000*0.08^2) = 1e-22 per row
REG_TILES = 50  # the regression branch samples row by row in Python: 500 draws per row, bound 0.2


# ---- sampling oracle --------------------------------------------------------------------------------------


def _sample_check(predict, p, seeds, what):
    """predict(tiles, seed) -> labels for the query tiled `tiles` times; p = reported P(1) per query row."""
    m = len(p)
    counts = np.zeros(m)
    total = 0
    first = None
    from vf import gen

    for k_, s in enumerate(seeds):
        if k_ % 2:
            s = np.int64(s)  # seeds often come out of numpy (np.arange, randint): same stream as the Python int
        g0 = gen.global_state()
        out = np.asarray(predict(DRAW_TILES, s)).reshape(-1)
        if gen.global_state() != g0:
            raise PropertyViolation(f"{what}: predict(random_state={s}) changed process-global state (numpy global RNG / error state / warnings filters)")
        if out.shape[0] != m * DRAW_TILES:
            raise PropertyViolation(f"{what}: predict returned {out.shape[0]} labels for {m * DRAW_TILES} rows")
        if not np.isin(out, [0, 1]).all():
            raise PropertyViolation(f"{what}: predict returned values outside {{0,1}}: {np.unique(out)}")
        if first is None:
            again = np.asarray(predict(DRAW_TILES, s)).reshape(-1)
            if not np.array_equal(out, again):
                raise PropertyViolation(f"{what}: predict with the same random_state={s} is not reproducible")
            first = out
        counts += out.reshape(DRAW_TILES, m).sum(axis=0)
        total += DRAW_TILES
    # a RandomState *instance* is used and advanced (scikit-learn's random_state convention): two consecutive calls
    # with the same instance are two different draws, and a fresh instance with the same seed repeats the first
    if ((p > 0.2) & (p < 0.8)).sum() * DRAW_TILES >= 200:
        rs = np.random.RandomState(int(seeds[0]) + 7)
        a1 = np.asarray(predict(DRAW_TILES, rs)).reshape(-1)
        a2 = np.asarray(predict(DRAW_TILES, rs)).reshape(-1)
        b1 = np.asarray(predict(DRAW_TILES, np.random.RandomState(int(seeds[0]) + 7))).reshape(-1)
        if not np.array_equal(a1, b1):
            raise PropertyViolation(f"{what}: predict with a fresh RandomState(seed) instance is not reproducible")
        if np.array_equal(a1, a2):
            raise PropertyViolation(f"{what}: two consecutive predict calls with the same RandomState instance return identical labels for "
                                    f"{a1.shape[0]} rows (>= 200 of them with 0.2 < p < 0.8): the generator passed in is not advanced")
        counts += a2.reshape(DRAW_TILES, m).sum(axis=0)
        total += DRAW_TILES
    freq = counts / total
    bad = np.abs(freq - p) > EPS_P
    if bad.any():
        i = int(np.argmax(np.abs(freq - p)))
        raise PropertyViolation(f"{what}: row {i} is predicted 1 with frequency {freq[i]:.3f} over {total} draws but the reported probability is {p[i]:.3f}")
    det1, det0 = p == 1.0, p == 0.0
    if (counts[det1] != total).any() or (counts[det0] != 0).any():
        raise PropertyViolation(f"{what}: a row with reported probability exactly 0 or 1 is not predicted deterministically")
    var = (total * p * (1 - p)).sum()
    if var > 0:
        z = abs((counts - total * p).sum()) / np.sqrt(var)
        if z > 8:
            raise PropertyViolation(f"{what}: pooled deviation of the frequencies from the reported pmf is {z:.1f} sigma")


def _valid_pmf(pmf, what):
    pmf = np.asarray(pmf, dtype=float)
    if pmf.ndim != 2 or pmf.shape[1] != 2:
        raise PropertyViolation(f"{what}: pmf has shape {pmf.shape}")
    if (pmf < -1e-12).any() or (pmf > 1 + 1e-12).any():
        raise PropertyViolation(f"{what}: probabilities outside [0,1]: min {pmf.min()}, max {pmf.max()}")
    if np.abs(pmf.sum(axis=1) - 1).max() > 1e-9:
        raise PropertyViolation(f"{what}: pmf rows do not sum to 1")
    return pmf[:, 1]


# ---- ThresholdOptimizer -------------------------------------------------------------------------------------


def _fit_to(case):
    from fairlearn.postprocessing import ThresholdOptimizer

    n = len(case["y"])
    X = np.asarray(case["scores"], dtype=float).reshape(n, 1)
    to = ThresholdOptimizer(estimator=ScoreColumn(), constraints=case["constraint"], objective=case["objective"],
                            prefit=True, predict_method="predict", grid_size=case["grid_size"], flip=case["flip"])
    to.fit(X, np.asarray(case["y"]), sensitive_features=np.asarray(case["g"]))
    return to


def _query(case):
    q = case["query"]
    return np.asarray([s for s, _ in q], dtype=float).reshape(-1, 1), np.asarray([g for _, g in q])


def check_threshold(case):
    to = _fit_to(case)
    Xq, gq = _query(case)
    m = len(gq)
    p = _valid_pmf(to._pmf_predict(Xq, sensitive_features=gq), "ThresholdOptimizer._pmf_predict")
    # also through the fitted InterpolatedThresholder directly
    p_it = _valid_pmf(to.interpolated_thresholder_._pmf_predict(Xq, sensitive_features=gq), "InterpolatedThresholder._pmf_predict")
    if np.abs(p - p_it).max() > 0:
        raise PropertyViolation("ThresholdOptimizer._pmf_predict and its interpolated_thresholder_ disagree")
    # function of (score, group) only
    seen = {}
    for i in range(m):
        key = (float(Xq[i, 0]), str(gq[i]))
        if key in seen and seen[key] != p[i]:
            raise PropertyViolation(f"rows with equal (score, group) = {key} get different probabilities {seen[key]} / {p[i]}")
        seen[key] = p[i]
    # invariant under sub-setting / reordering the query set
    sub = case["subset"]
    idx = [i % m for i in sub] or [0]
    p_sub = _valid_pmf(to._pmf_predict(Xq[idx], sensitive_features=gq[idx]), "pmf on a subset")
    if np.abs(p_sub - p[idx]).max() > 0:
        raise PropertyViolation("the probability of a row changes when the query set is sub-set / reordered")
    # monotone in the score within a group without flip
    if not case["flip"]:
        for g in set(gq.tolist()):
            rows = [i for i in range(m) if gq[i] == g]
            rows.sort(key=lambda i: Xq[i, 0])
            for a, b in zip(rows, rows[1:]):
                if p[b] < p[a] - 1e-12:
                    raise PropertyViolation(f"flip=False but P(1) decreases with the score in group {g}: score {Xq[a, 0]} -> {p[a]}, score {Xq[b, 0]} -> {p[b]}")
    # a query object that is modified in place between two calls must be read again: the answer is a function
    # of the current scores, not of an earlier call with the same array object
    Xm = Xq.copy()
    to._pmf_predict(Xm, sensitive_features=gq)
    to.predict(Xm, sensitive_features=gq, random_state=0)
    Xm[:] = Xm[::-1] + (0.5 if case.get("shift_scores") else 0.0)
    p_again = np.asarray(to._pmf_predict(Xm, sensitive_features=gq))[:, 1]
    p_fresh = np.asarray(to._pmf_predict(Xm.copy(), sensitive_features=gq.copy()))[:, 1]
    if np.abs(p_again - p_fresh).max() > 0:
        raise PropertyViolation("querying the same array object again after modifying it in place returns probabilities of the earlier contents")
    y_again = np.asarray(to.predict(Xm, sensitive_features=gq, random_state=3))
    y_fresh = np.asarray(to.predict(Xm.copy(), sensitive_features=gq.copy(), random_state=3))
    if not np.array_equal(y_again, y_fresh):
        raise PropertyViolation("predict on an array object modified in place differs from predict on a fresh copy of the same values")
    tiled = {}

    def predict(tiles, seed):
        if tiles not in tiled:
            tiled[tiles] = (np.tile(Xq, (tiles, 1)), np.tile(gq, tiles))
        Xt, gt = tiled[tiles]
        return to.predict(Xt, sensitive_features=gt, random_state=seed)

    _sample_check(predict, p, case["seeds"], f"ThresholdOptimizer({case['constraint']}, flip={case['flip']})")
    tags = ["constraint:" + case["constraint"]]
    if ((p > 0.05) & (p < 0.95)).any():
        tags.append("nt")
    d = to.interpolated_thresholder_.interpolation_dict
    if any(b.get("p_ignore", 0) > 0 for b in d.values()):
        tags.append("p_ignore>0")
    if any(b.operation0.operator == "<" or b.operation1.operator == "<" for b in d.values()):
        tags.append("flip_used")
    if any(float(s) not in set(case["scores"]) for s, _ in case["query"]):
        tags.append("unseen_scores")
    return tags


def check_huge_batch(case):
    """One prediction call on more than 2**20 rows: the probability of a row is still the function of (score, group)
    that a small batch shows, at every position of the batch (block boundaries included)."""
    to = _fit_to(case)
    levels = sorted(set(case["scores"]))
    groups = sorted(set(case["g"]))
    small_X = np.asarray([[s] for s in levels for _ in groups], dtype=float)
    small_g = np.asarray([g for _ in levels for g in groups])
    p_small = _valid_pmf(to._pmf_predict(small_X, sensitive_features=small_g), "small batch")
    table = {(float(s), str(g)): p for s, g, p in zip(small_X[:, 0], small_g, p_small)}
    m = case["rows"]
    rs = np.random.RandomState(case["seed"])
    idx = rs.randint(0, len(small_g), size=m)
    # rows around the multiples of 2**20 carry a pair with a large probability wherever one exists
    best = int(np.argmax(p_small))
    for k in range(1, m // (1 << 20) + 1):
        idx[max(0, k * (1 << 20) - 2): k * (1 << 20) + 2] = best
    Xb, gb = small_X[idx], small_g[idx]
    p_big = _valid_pmf(to._pmf_predict(Xb, sensitive_features=gb), f"batch of {m} rows")
    exp = p_small[idx]
    bad = np.nonzero(np.abs(p_big - exp) > 0)[0]
    if bad.size:
        i = int(bad[0])
        raise PropertyViolation(f"row {i} of a batch of {m} rows (score {Xb[i, 0]}, group {gb[i]}) gets P(1) = {p_big[i]}, "
                                f"the same (score, group) in a small batch gets {exp[i]}; {bad.size} rows differ, positions {bad[:5].tolist()}")
    yhat = np.asarray(to.predict(Xb, sensitive_features=gb, random_state=case["seed"] % 1000))
    det1, det0 = exp == 1.0, exp == 0.0
    if (yhat[det1] != 1).any() or (yhat[det0] != 0).any():
        raise PropertyViolation(f"predict on a batch of {m} rows: a row with probability exactly 0 or 1 is not predicted deterministically")
    return ["nt", "rows>2**20"] if p_small.max() > 0 else []


@st.composite
def _huge_batch_case(draw):
    c = draw(_to_case())
    c["rows"] = draw(st.sampled_from([(1 << 20) + 3, (1 << 20) + 1, (1 << 21) + 5, 1 << 20]))
    c["seed"] = draw(st.integers(0, 2**31 - 1))
    return c


def _near_vertex_sizes(G, j, n0, rare=False):
    """Smallest n >= n0 (and P) with 0 < P/n - j/G < 0.9e-6: a curve vertex a hair above a grid value.  With
    ``rare`` the distance is chosen so that the interpolation weight r / (G P) lies in (2e-5, 4.5e-5): an outcome
    that is rare but has a definite probability."""
    for n in range(n0, n0 + 20000):
        P = (n * j) // G + 1
        r = G * P - n * j
        ok = (2e-5 * G * P < r < 4.5e-5 * G * P) if rare else (0 < r < 0.9e-6 * G * n)
        if ok and 0 < P < n:
            return n, P
    return None


def check_near_vertex(case):
    """A large group whose trade-off curve has a vertex (selection rate P/n of the perfectly separating threshold) less
    than 1e-6 above a grid value j/G, and which dominates the objective so that this grid value is the chosen one:
    the interpolation between the curve points left and right of the grid value must still be a convex combination
    (probabilities in [0,1], non-decreasing in the score without flip)."""
    from fairlearn.postprocessing import ThresholdOptimizer

    G, j = case["grid"], case["j"]
    while math.gcd(j, G) > 1:  # residues n*j mod G then run through every value: a near-coincidence exists in any window of G sizes
        j += 1
    found = _near_vertex_sizes(G, j, case["n0"], rare=bool(case.get("rare")))
    if found is None:
        from vf.runner import Skip

        raise Skip("no near-coincidence in range")
    n, P = found
    hi, lo = case["hi"], case["lo"]
    sA = np.r_[np.full(P, hi), np.full(n - P, lo)]
    yA = np.r_[np.ones(P, dtype=int), np.zeros(n - P, dtype=int)]
    nB, PB = case["nB"], max(1, min(case["nB"] - 1, int(round(case["nB"] * j / G))))
    sB = np.r_[np.linspace(hi, hi + 0.5, PB), np.linspace(lo - 0.5, lo, nB - PB)]
    yB = np.r_[np.ones(PB, dtype=int), np.zeros(nB - PB, dtype=int)]
    s, y, g = np.r_[sA, sB], np.r_[yA, yB], np.r_[np.full(n, "A"), np.full(nB, "B")]
    order = np.argsort((np.arange(len(s)) * 7919) % len(s), kind="stable")
    s, y, g = s[order], y[order], g[order]
    to = ThresholdOptimizer(estimator=ScoreColumn(), constraints=case["constraint"], objective="accuracy_score",
                            prefit=True, predict_method="predict", grid_size=G, flip=case["flip"])
    to.fit(s.reshape(-1, 1), y, sensitive_features=g)
    qs = np.unique(np.r_[s, lo - 1.0, hi + 1.0, (lo + hi) / 2])
    tags = ["nt"]
    for grp in ("A", "B"):
        p = _valid_pmf(to._pmf_predict(qs.reshape(-1, 1), sensitive_features=np.full(len(qs), grp)), f"_pmf_predict (group {grp}, n={n}, P={P}, grid {j}/{G})")
        if not case["flip"] and (np.diff(p) < -1e-12).any():
            k = int(np.argmin(np.diff(p)))
            raise PropertyViolation(f"flip=False but P(1) decreases with the score in group {grp}: score {qs[k]} -> {p[k]}, score {qs[k + 1]} -> {p[k + 1]} (n={n}, P={P}, grid value {j}/{G})")
    b = to.interpolated_thresholder_.interpolation_dict["A"]
    for key in ("p0", "p1"):
        if not -1e-12 <= float(b[key]) <= 1 + 1e-12:
            raise PropertyViolation(f"interpolation weight {key} = {float(b[key])!r} of group A is outside [0,1] (n={n}, P={P}, grid value {j}/{G})")
    if case.get("rare") and not case["flip"]:
        # a row whose reported probability q of the rarer label lies in (1e-5, 5e-5): among 2 000 000 independent draws the
        # rarer label occurs 2e6 * q >= 20 times on average; never seeing it has probability < e^-20
        ph = float(np.asarray(to._pmf_predict(np.array([[hi]]), sensitive_features=np.array(["A"])))[0, 1])
        q = min(ph, 1 - ph)
        if 1e-5 < q < 5e-5:
            N = 2000000
            yh = np.asarray(to.predict(np.full((N, 1), hi), sensitive_features=np.full(N, "A"), random_state=case["n0"]))
            rare_count = int((yh == (1 if ph < 0.5 else 0)).sum())
            if rare_count == 0:
                raise PropertyViolation(f"a row with reported P(1) = {ph!r} was predicted {N} times with independent draws and the label of "
                                        f"probability {q:.2e} never occurred (expected about {N * q:.0f} times)")
            tags.append("rare_outcome_sampled")
    x_sel = float(np.asarray(to._pmf_predict(sA.reshape(-1, 1), sensitive_features=np.full(n, "A")))[:, 1].mean())
    if abs(x_sel - j / G) < 1e-9:
        tags.append("chosen_grid_value_just_below_vertex")
    return tags


@st.composite
def _near_vertex_case(draw):
    G = draw(st.sampled_from([1000, 1000, 500, 2000]))
    return {"grid": G, "j": draw(st.integers(G // 10, 9 * G // 10)), "n0": draw(st.sampled_from([5000, 8000, 10000, 12000])),
            "nB": draw(st.sampled_from([40, 200, 1000])), "hi": draw(st.sampled_from([0.8, 1.0, 3.0])), "lo": draw(st.sampled_from([0.2, 0.0, -2.0])),
            "constraint": draw(st.sampled_from(["demographic_parity", "selection_rate_parity"])), "flip": draw(st.booleans()),
            "rare": draw(st.integers(0, 3)) == 0}


# ---- ExponentiatedGradient -------------------------------------------------------------------------------------


def _moment(case):
    import fairlearn.reductions as fr

    name = case["moment"]
    if case.get("ratio"):
        return getattr(fr, name)(ratio_bound=case["ratio"], ratio_bound_slack=case["bound"])
    return getattr(fr, name)(difference_bound=case["bound"])


def _fit_eg(case):
    import fairlearn.reductions as fr

    n = len(case["y"])
    X = np.asarray(case["levels"], dtype=float).reshape(n, 1)
    eg = fr.ExponentiatedGradient(ExactTable(), _moment(case), eps=case["eps"], max_iter=case["max_iter"], nu=case["nu"],
                                  eta0=case["eta0"], run_linprog_step=case["lp"])
    try:
        eg.fit(X, np.asarray(case["y"]), sensitive_features=np.asarray(case["g"]))
    except ValueError as e:
        if "NaN" in str(e):
            raise Skip("all signed weights cancel")
        raise
    return eg


def check_eg(case):
    eg = _fit_eg(case)
    Xq = np.asarray(case["query_levels"], dtype=float).reshape(-1, 1)
    m = len(Xq)
    p = _valid_pmf(eg._pmf_predict(Xq), "ExponentiatedGradient._pmf_predict")
    w = eg.weights_
    if (w.values < -1e-9).any() or abs(w.sum() - 1) > 1e-6:  # LP (HiGHS) feasibility tolerance
        raise PropertyViolation(f"weights_ is not a probability vector: {w.to_dict()}")
    if set(w.index) != set(eg.predictors_.index):
        raise PropertyViolation(f"weights_ labels {sorted(w.index)} != predictors_ labels {sorted(eg.predictors_.index)}")
    mix = np.zeros(m)
    for t in w.index:
        if w[t] != 0:
            mix += w[t] * np.asarray(eg.predictors_[t].predict(Xq), dtype=float)
    if np.abs(mix - p).max() > 1e-9:
        i = int(np.argmax(np.abs(mix - p)))
        raise PropertyViolation(f"P(1) of row {i} is {p[i]} but the weights_-weighted mixture of the stored predictors gives {mix[i]} (weights {w.to_dict()})")
    Xm = Xq.copy()
    eg._pmf_predict(Xm)
    Xm[:] = Xm[::-1]
    if np.abs(np.asarray(eg._pmf_predict(Xm)) - np.asarray(eg._pmf_predict(Xm.copy()))).max() > 0:
        raise PropertyViolation("querying the same array object again after modifying it in place returns probabilities of the earlier contents")
    tiled = {}

    def predict(tiles, seed):
        if tiles not in tiled:
            tiled[tiles] = np.tile(Xq, (tiles, 1))
        return eg.predict(tiled[tiles], random_state=seed)

    if not case.get("mixture_only"):
        _sample_check(predict, p, case["seeds"], f"ExponentiatedGradient({case['moment']}, lp={case['lp']})")
    tags = ["moment:" + case["moment"], "lp" if case["lp"] else "no_lp"]
    if ((p > 0.05) & (p < 0.95)).any():
        tags.append("nt")
    if list(w.index) != sorted(w.index):
        tags.append("weights_index_unsorted")
    if (w.values > 0).sum() >= 2:
        tags.append("mixture>=2")
    return tags


def check_eg_regression(case):
    import fairlearn.reductions as fr

    n = len(case["y"])
    X = np.asarray(case["levels"], dtype=float).reshape(n, 1)
    y = np.asarray(case["y"], dtype=float)
    mom = fr.BoundedGroupLoss(fr.SquareLoss(0.0, 1.0), upper_bound=case["upper"])
    eg = fr.ExponentiatedGradient(ExactTableRegressor(), mom, eps=case["eps"], max_iter=case["max_iter"], nu=case["nu"],
                                  eta0=case["eta0"], run_linprog_step=case["lp"])
    try:
        eg.fit(X, y, sensitive_features=np.asarray(case["g"]))
    except ValueError as e:
        if "NaN" in str(e):
            raise Skip("all signed weights cancel")
        raise
    w = eg.weights_
    if (w.values < -1e-9).any() or abs(w.sum() - 1) > 1e-6:  # LP (HiGHS) feasibility tolerance
        raise PropertyViolation(f"weights_ is not a probability vector: {w.to_dict()}")
    Xq = np.asarray(case["query_levels"], dtype=float).reshape(-1, 1)
    m = len(Xq)
    outs = {t: np.asarray(eg.predictors_[t].predict(Xq), dtype=float) for t in w.index}
    total = REG_TILES * len(case["seeds"])
    Xt = np.tile(Xq, (REG_TILES, 1))
    draws = []
    for k, s in enumerate(case["seeds"]):
        out = np.asarray(eg.predict(Xt, random_state=s), dtype=float).reshape(REG_TILES, m)
        if k == 0:
            again = np.asarray(eg.predict(Xt, random_state=s), dtype=float).reshape(REG_TILES, m)
            if not np.array_equal(out, again):
                raise PropertyViolation("regression predict with the same random_state is not reproducible")
        draws.append(out)
    draws = np.concatenate(draws, axis=0)
    nontrivial = False
    for i in range(m):
        dist = {}
        for t in w.index:
            if w[t] > 0:
                v = round(float(outs[t][i]), 9)  # outputs equal up to rounding are one value
                dist[v] = dist.get(v, 0.0) + float(w[t])
        if len(dist) >= 2 and max(dist.values()) < 0.95:
            nontrivial = True
        col = draws[:, i]
        for v in np.unique(col):
            if not any(abs(v - u) <= 1e-8 for u in dist):
                raise PropertyViolation(f"row {i}: predict returned {v}, which is not the output of any stored predictor with positive weight (outputs/weights: {dist})")
        for u, pu in dist.items():
            f = float(np.mean(np.abs(col - u) <= 1e-8))
            if abs(f - pu) > 0.2:
                raise PropertyViolation(f"row {i}: the predictor output {u} is returned with frequency {f:.3f} over {total} draws but carries weight {pu:.3f} (weights_ {w.to_dict()})")
    tags = ["lp" if case["lp"] else "no_lp"]
    if nontrivial:
        tags.append("nt")
    if list(w.index) != sorted(w.index):
        tags.append("weights_index_unsorted")
    return tags


# ---- histories: prediction does not alter the fitted model ------------------------------------------------------


def check_history(case):
    which = case["model"]
    if which == "to":
        est = _fit_to(case)
        Xq, gq = _query(case)
        pmf = lambda e: e._pmf_predict(Xq, sensitive_features=gq)  # noqa: E731
        pred = lambda e, s: e.predict(Xq, sensitive_features=gq, random_state=s)  # noqa: E731
    else:
        est = _fit_eg(case)
        Xq = np.asarray(case["query_levels"], dtype=float).reshape(-1, 1)
        pmf = lambda e: e._pmf_predict(Xq)  # noqa: E731
        pred = lambda e, s: e.predict(Xq, random_state=s)  # noqa: E731
    base = np.asarray(pmf(est), dtype=float)
    ref_pred = {}
    for op in case["ops"]:
        kind, s = op
        if kind == "predict":
            out = np.asarray(pred(est, s))
            if s in ref_pred and not np.array_equal(ref_pred[s], out):
                raise PropertyViolation(f"predict(random_state={s}) gives a different answer after the history {case['ops']}")
            ref_pred[s] = out
        elif kind == "predict_unseeded":
            pred(est, None)
        elif kind == "pmf":
            pass
        elif kind == "pickle":
            est = pickle.loads(pickle.dumps(est))
        now = np.asarray(pmf(est), dtype=float)
        if not np.array_equal(now, base):
            raise PropertyViolation(f"_pmf_predict changed after operation {op} in history {case['ops']}")
    tags = ["model:" + which]
    if len(case["ops"]) >= 2 and ((base[:, 1] > 0.05) & (base[:, 1] < 0.95)).any():
        tags.append("nt")
    if any(o[0] == "pickle" for o in case["ops"]):
        tags.append("pickle")
    return tags


# ---- strategies -----------------------------------------------------------------------------------------------------

SCORE_LEVELS = [[0.0, 1 / 3, 2 / 3, 1.0], [0.1, 0.2, 0.5, 0.8, 0.9], [0.0, 0.25, 0.5, 0.75, 1.0, 1.25], [-1.0, 0.0, 2.5]]
TO_CONSTRAINTS = ["demographic_parity", "selection_rate_parity", "false_positive_rate_parity", "false_negative_rate_parity",
                  "true_positive_rate_parity", "true_negative_rate_parity", "equalized_odds"]


@st.composite
def _labelled_groups(draw, min_per=2, max_per=6, max_groups=3):
    labels = draw(st.sampled_from([["a", "b", "c"], [0, 1, 2], [5, 3, 9]]))
    k = draw(st.integers(2, max_groups))
    g, y = [], []
    for i in range(k):
        m = draw(st.integers(min_per, max_per))
        g += [labels[i]] * m
        y += [0, 1] + [draw(st.integers(0, 1)) for _ in range(m - 2)]
    n = len(g)
    perm = draw(st.permutations(range(n)))
    return [g[i] for i in perm], [y[i] for i in perm]


_seeds = st.lists(st.integers(0, 2**31 - 1), min_size=DRAW_SEEDS, max_size=DRAW_SEEDS, unique=True)


@st.composite
def _to_case(draw):
    g, y = draw(_labelled_groups())
    n = len(g)
    levels = draw(st.sampled_from(SCORE_LEVELS))
    scores = draw(st.lists(st.sampled_from(levels), min_size=n, max_size=n))
    constraint = draw(st.sampled_from(TO_CONSTRAINTS))
    if constraint == "equalized_odds":
        objective = draw(st.sampled_from(["accuracy_score", "balanced_accuracy_score"]))
    else:
        objective = draw(st.sampled_from(["accuracy_score", "balanced_accuracy_score", "selection_rate",
                                          "true_positive_rate", "true_negative_rate"]))
    qmode = draw(st.sampled_from(["train", "train", "mixed"]))
    query = [[s, gi] for s, gi in zip(scores, g)]
    if qmode == "mixed":
        extra_scores = levels + [levels[0] - 0.5, levels[-1] + 0.5, (levels[0] + levels[1]) / 2]
        k = draw(st.integers(1, 8))
        query = [[draw(st.sampled_from(extra_scores)), draw(st.sampled_from(sorted(set(g), key=str)))] for _ in range(k)] + query[: draw(st.integers(0, n))]
    return {"g": g, "y": y, "scores": scores, "constraint": constraint, "objective": objective,
            "flip": draw(st.booleans()), "grid_size": draw(st.sampled_from([1, 2, 3, 7, 10, 50, 1000])),
            "query": query, "subset": draw(st.lists(st.integers(0, 40), min_size=1, max_size=8)),
            "shift_scores": draw(st.booleans()), "seeds": draw(_seeds)}


@st.composite
def _eg_case(draw, regression=False):
    g, y = draw(_labelled_groups(min_per=3, max_per=7))
    n = len(g)
    L = draw(st.integers(2, 4))
    levels = draw(st.lists(st.integers(0, L - 1), min_size=n, max_size=n))
    case = {"g": g, "levels": levels,
            "eps": draw(st.sampled_from([0.01, 0.05, 0.2])), "max_iter": draw(st.sampled_from([1, 2, 5, 10, 20])),
            "nu": draw(st.sampled_from([1e-6, 1e-3, 0.05])), "eta0": draw(st.sampled_from([0.5, 2.0, 8.0])),
            "lp": draw(st.booleans()),
            "query_levels": draw(st.lists(st.integers(0, 4), min_size=1, max_size=8)),
            "seeds": draw(_seeds)}
    if regression:
        case["y"] = draw(st.lists(st.sampled_from([0.0, 0.25, 0.5, 1.0, 0.8]), min_size=n, max_size=n))
        case["upper"] = draw(st.sampled_from([0.01, 0.05, 0.1, 0.3]))
    else:
        case["y"] = y
        case["moment"] = draw(st.sampled_from(["DemographicParity", "EqualizedOdds", "TruePositiveRateParity",
                                               "FalsePositiveRateParity", "ErrorRateParity"]))
        case["ratio"] = draw(st.sampled_from([None, None, 0.8]))
        case["bound"] = draw(st.sampled_from([0.0, 0.01, 0.05, 0.2]))
    return case


@st.composite
def _eg_mixture_case(draw):
    """Many cheap fits biased towards runs whose weights_ index is not sorted (no LP step, large eta0): the
    pmf must still be the label-aligned mixture.  No sampling in this sub-check."""
    c = draw(_eg_case())
    c["lp"] = draw(st.sampled_from([False, False, False, False, True]))
    c["eta0"] = draw(st.sampled_from([8.0, 8.0, 32.0, 2.0]))
    c["max_iter"] = draw(st.sampled_from([5, 10, 20, 40]))
    c["nu"] = 1e-6
    c["mixture_only"] = True
    c["query_levels"] = [0, 1, 2, 3, 4]
    return c


@st.composite
def _history_case(draw):
    if draw(st.booleans()):
        c = draw(_to_case())
        c["model"] = "to"
    else:
        c = draw(_eg_case())
        c["model"] = "eg"
    op = st.one_of(st.tuples(st.just("predict"), st.integers(0, 3)), st.tuples(st.just("predict_unseeded"), st.just(0)),
                   st.tuples(st.just("pmf"), st.just(0)), st.tuples(st.just("pickle"), st.just(0)))
    c["ops"] = [list(o) for o in draw(st.lists(op, min_size=1, max_size=5))]
    return c


SUBS = [
    Sub("threshold_pmf_sampling", check_threshold, strategy=_to_case, quick=120, thorough=4000, shards=16, shrink_quick=False,
        floors={"nt": 0.03, "unseen_scores": 0.1}),
    Sub("threshold_near_vertex_grid", check_near_vertex, strategy=_near_vertex_case, quick=48, thorough=800, shards=16, shrink_quick=False,
        floors={"chosen_grid_value_just_below_vertex": 0.3}),
    Sub("threshold_huge_batch", check_huge_batch, strategy=_huge_batch_case, quick=8, thorough=96, shards=8, shrink_quick=False),
    Sub("eg_pmf_sampling", check_eg, strategy=_eg_case, quick=60, thorough=1500, shards=16, shrink_quick=False,
        floors={"nt": 0.05, "mixture>=2": 0.1}),
    Sub("eg_mixture", check_eg, strategy=_eg_mixture_case, quick=400, thorough=8000, shards=16, shrink_quick=False,
        floors={"weights_index_unsorted": 0.015, "mixture>=2": 0.2}),
    Sub("eg_regression_sampling", check_eg_regression, strategy=lambda: _eg_case(regression=True), quick=50, thorough=1200,
        shards=16, shrink_quick=False, floors={"nt": 0.08}),
    Sub("prediction_histories", check_history, strategy=_history_case, quick=80, thorough=2000, shards=16, shrink_quick=False,
        floors={"nt": 0.02, "pickle": 0.203}),
]
