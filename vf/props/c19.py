"""C19 - estimator life cycle: fit depends on parameters and data, not on call history.

Model-based testing over call histories.  A history is a list of operations over
{fit(D1), fit(D2), predict(seed), pickle round trip, clone}; the model is a *fresh* estimator constructed with
the same parameters and fitted once on the last dataset.  After every step the estimator under test must have
the same fitted state as the model, fit must return the estimator itself, get_params(deep=False) must be
unchanged, a repeated predict with the same seed must repeat the answer, and an unpickled estimator must
predict exactly like the original.  Histories of length <= 4 are enumerated exhaustively for
ThresholdOptimizer and CorrelationRemover and sampled (Hypothesis, with drawn data and configurations) for
all estimator classes.
"""

from __future__ import annotations

import itertools
import pickle

import numpy as np
import pandas as pd
from hypothesis import strategies as st
from sklearn.base import clone

from vf.learners import ExactTable, ExactTableRegressor, PredictOnlyColumn, ScoreColumn, ScoreColumnMulti, ShiftScorer
from vf.runner import PropertyViolation, Skip, Sub

PROPERTY = "C19"
LEVEL = "exploration"
RULE = (
    "Histories = sequences of 1..4 (a third: up to 7) operations from {fit(D1), fit(D2), predict(seed), pickle, clone} (plus set_params "
    "re-configuration between fits, prediction on the other dataset, and fitting a sibling estimator of the same "
    "configuration on the other dataset) on "
    "ThresholdOptimizer, ExponentiatedGradient, GridSearch, CorrelationRemover and the adversarial "
    "classifier/regressor (warm_start=False, PyTorch), with drawn configurations and two drawn datasets "
    "(for CorrelationRemover also of different width and different DataFrame column layout); all 5^1..5^4 "
    "histories are enumerated for ThresholdOptimizer and CorrelationRemover over fixed dataset pairs. "
    "Non-trivial: the history contains a refit on different data, a refit after a re-configuration, a sibling fit after "
    "a fit, or a clone/pickle after a fit."
)
ASSUMPTIONS = [
    "the reference model is a freshly constructed estimator with equal parameters fitted once on the last dataset",
    "state equality is bit-exact (the same computation on the same data) except where a tolerance is stated (1e-12)",
    "constructor parameters that are objects (estimator, constraints) are compared by identity, primitives by value",
    "known finding D9: ExponentiatedGradient(nu=None) overwrites the constructor parameter nu in fit; that region is "
    "excluded and probed",
    "pickle round trips are demanded for ThresholdOptimizer, ExponentiatedGradient, GridSearch and CorrelationRemover only",
]

# configuration key -> constructor parameter that set_params may change between fits, and alternative values
RECONF_PARAM = {
    "to": {"grid_size": "grid_size", "flip": "flip", "constraint": "constraints", "objective": "objective"},
    "eg": {"eps": "eps", "max_iter": "max_iter", "eta0": "eta0", "lp": "run_linprog_step"},
    "gs": {"grid_size": "grid_size", "grid_limit": "grid_limit", "cw": "constraint_weight"},
    "cr": {"alpha": "alpha"},
    "adv": {"lr": "learning_rate", "alpha": "alpha", "epochs": "epochs", "batch_size": "batch_size"},
}
RECONF_VALUES = {
    "to": {"grid_size": [2, 3, 10, 40, 1000], "flip": [True, False], "scorer": ["column", "shift", "predonly", "multi"],
           "pm": ["predict", "auto", "auto", "predict_proba", "decision_function"],
           "constraint": ["demographic_parity", "equalized_odds", "true_positive_rate_parity", "false_negative_rate_parity"],
           "objective": ["accuracy_score", "balanced_accuracy_score"]},
    "eg": {"eps": [0.01, 0.05, 0.2], "max_iter": [2, 5, 10], "eta0": [0.5, 2.0], "lp": [True, False]},
    "gs": {"grid_size": [3, 4, 6, 11], "grid_limit": [0.5, 1.0, 2.0], "cw": [0.0, 0.5, 1.0]},
    "cr": {"alpha": [1.0, 0.5, 0.0]},
    "adv": {"lr": [0.1, 0.01], "alpha": [0.0, 1.0], "epochs": [1, 2], "batch_size": [-1, 3, 4]},
}
OPS = ["fit1", "fit2", "predict", "pickle", "clone"]
EXTRA_OPS = ["predict_other", "reconfig", "sibling_fit"]  # sampled histories only: predict / transform on the *other* dataset


# ---- adapters: build / fit / state / predict per estimator kind ---------------------------------------------


def _moment(name, bound):
    import fairlearn.reductions as fr

    if name == "BoundedGroupLoss":
        return fr.BoundedGroupLoss(fr.SquareLoss(0.0, 1.0), upper_bound=max(bound, 0.05))
    return getattr(fr, name)(difference_bound=bound)


class _Adapter:
    pickles = True

    def __init__(self, case):
        self.case = case
        self.cfg = case["config"]

    def data(self, k):
        return self.case["D%d" % k]

    def updates(self, c2):
        """(set_params keyword arguments, configuration keys) that re-configure the estimator as drawn in c2."""
        names = RECONF_PARAM[self.case["estimator"]]
        keys = [k for k in c2 if k in names]
        return {names[k]: c2[k] for k in keys}, keys

    def check_params(self, est, before, what):
        after = est.get_params(deep=False)
        if set(after) != set(before):
            raise PropertyViolation(f"{what}: get_params keys changed: {sorted(set(after) ^ set(before))}")
        for key, v0 in before.items():
            v1 = after[key]
            if _prim(v0):
                same = _prim(v1) and _eq(v0, v1)
            else:
                same = v1 is v0
            if not same:
                raise PropertyViolation(f"{what}: constructor parameter {key!r} changed from {v0!r} to {v1!r}")


def _prim(v):
    if v is None or isinstance(v, (bool, int, float, str, np.integer, np.floating)):
        return True
    if isinstance(v, (list, tuple)):
        return all(_prim(x) for x in v)
    return False


def _eq(a, b):
    if isinstance(a, (list, tuple)):
        return isinstance(b, (list, tuple)) and len(a) == len(b) and all(_eq(x, y) for x, y in zip(a, b))
    if isinstance(a, float) and isinstance(b, float) and np.isnan(a) and np.isnan(b):
        return True
    return type(a) is type(b) and a == b or (not isinstance(a, bool) and not isinstance(b, bool) and isinstance(a, (int, float)) and isinstance(b, (int, float)) and a == b)


def _interp_repr(d):
    out = {}
    for k, b in d.items():
        out[str(k)] = (float(b.p0), b.operation0.operator, float(b.operation0.threshold), float(b.p1),
                       b.operation1.operator, float(b.operation1.threshold), float(b.get("p_ignore", 0.0)),
                       float(b.get("prediction_constant", 0.0)))
    return out


def _to_scorer(c):
    kind = c.get("scorer", "column")
    if kind == "shift" and not c["prefit"]:
        return ShiftScorer()  # predict only, data-dependent
    if kind == "predonly":
        return PredictOnlyColumn()
    if kind == "multi":
        return ScoreColumnMulti(primary="predict")  # predict_proba / decision_function on the reversed scale
    return ScoreColumn()


def _to_pm(c):
    pm = c.get("pm", "predict")
    if pm in ("predict_proba", "decision_function") and c.get("scorer", "column") not in ("column", "multi"):
        return "auto"
    return pm


class _TO(_Adapter):
    def build(self):
        from fairlearn.postprocessing import ThresholdOptimizer

        c = self.cfg
        return ThresholdOptimizer(estimator=_to_scorer(c), constraints=c["constraint"], objective=c["objective"],
                                  grid_size=c["grid_size"], flip=c["flip"], prefit=c["prefit"], predict_method=_to_pm(c))

    def updates(self, c2):
        upd, keys = super().updates(c2)
        merged = dict(self.cfg)
        merged.update(c2)
        if "scorer" in c2:  # a new base estimator object (possibly of another class, with other prediction methods)
            upd["estimator"] = _to_scorer(merged)
            keys.append("scorer")
        if "pm" in c2 or "scorer" in c2:
            upd["predict_method"] = _to_pm(merged)
            if "pm" in c2:
                keys.append("pm")
        return upd, keys


    def _xy(self, k):
        d = self.data(k)
        X = np.asarray(d["scores"], dtype=float).reshape(-1, 1)
        return X, np.asarray(d["y"]), np.asarray(d["g"])

    def fit(self, est, k):
        X, y, g = self._xy(k)
        return est.fit(X, y, sensitive_features=g)

    def state(self, est, k):
        X, y, g = self._xy(k)
        return {"rules": _interp_repr(est.interpolated_thresholder_.interpolation_dict),
                "pmf": np.asarray(est._pmf_predict(X, sensitive_features=g)).round(15).tolist()}

    def predict(self, est, k, seed):
        X, y, g = self._xy(k)
        return np.asarray(est.predict(X, sensitive_features=g, random_state=seed)).tolist()


class _EG(_Adapter):
    def build(self):
        import fairlearn.reductions as fr

        c = self.cfg
        learner = ExactTableRegressor() if c["moment"] == "BoundedGroupLoss" else ExactTable()
        extra = {}
        if c.get("costs") and c["moment"] != "BoundedGroupLoss":
            extra["objective"] = fr.ErrorRate(costs=dict(c["costs"]))  # a user-supplied objective object, kept across refits
        return fr.ExponentiatedGradient(learner, _moment(c["moment"], c["bound"]), eps=c["eps"], max_iter=c["max_iter"],
                                        nu=c["nu"], eta0=c["eta0"], run_linprog_step=c["lp"], **extra)


    def _xy(self, k):
        d = self.data(k)
        # datasets with equal feature values are handed over as the *same* array object (a user refitting on the
        # same X with new labels / groups): nothing may be keyed on the identity of X
        cache = self.__dict__.setdefault("_xcache", {})
        key = tuple(d["levels"])
        if key not in cache:
            cache[key] = np.asarray(d["levels"], dtype=float).reshape(-1, 1)
        X = cache[key]
        y = np.asarray(d["yreal"], dtype=float) if self.cfg["moment"] == "BoundedGroupLoss" else np.asarray(d["y"])
        return X, y, np.asarray(d["g"])

    def fit(self, est, k):
        X, y, g = self._xy(k)
        try:
            return est.fit(X, y, sensitive_features=g)
        except ValueError as e:
            if "NaN" in str(e):
                raise Skip("all signed weights cancel")
            raise

    def state(self, est, k):
        X, y, g = self._xy(k)
        pm = est._pmf_predict(X)
        return {"weights": {int(i): float(v) for i, v in est.weights_.items()}, "best_gap": float(est.best_gap_),
                "last_iter": int(est.last_iter_), "pmf": np.asarray(pm, dtype=float).round(15).tolist(),
                "n_predictors": len(est.predictors_)}

    def predict(self, est, k, seed):
        X, y, g = self._xy(k)
        return np.asarray(est.predict(X, random_state=seed), dtype=float).tolist()


class _GS(_EG):
    def build(self):
        import fairlearn.reductions as fr

        c = self.cfg
        learner = ExactTableRegressor() if c["moment"] == "BoundedGroupLoss" else ExactTable()
        return fr.GridSearch(learner, _moment(c["moment"], c["bound"]), grid_size=c["grid_size"], grid_limit=c["grid_limit"],
                             constraint_weight=c["cw"])


    def fit(self, est, k):
        X, y, g = self._xy(k)
        return est.fit(X, y, sensitive_features=g)

    def state(self, est, k):
        X, y, g = self._xy(k)
        return {"lambda": np.asarray(est.lambda_vecs_.values, dtype=float).tolist(),
                "gammas": np.asarray(est.gammas_.values, dtype=float).tolist(),
                "objectives": [float(v) for v in est.objectives_], "best_idx": int(est.best_idx_),
                "pred": np.asarray(est.predict(X), dtype=float).tolist()}

    def predict(self, est, k, seed):
        X, y, g = self._xy(k)
        return np.asarray(est.predict(X), dtype=float).tolist()


class _CR(_Adapter):
    def build(self):
        from fairlearn.preprocessing import CorrelationRemover

        return CorrelationRemover(sensitive_feature_ids=list(self.cfg["ids"]), alpha=self.cfg["alpha"])


    def _x(self, k):
        d = self.data(k)
        X = np.asarray(d["X"], dtype=float)
        if self.cfg["frame"]:
            return pd.DataFrame(X, columns=d["columns"])
        return X

    def fit(self, est, k):
        return est.fit(self._x(k))

    def state(self, est, k):
        return {"beta": np.asarray(est.beta_, dtype=float).tolist(), "mean": np.asarray(est.sensitive_mean_, dtype=float).tolist(),
                "out": np.asarray(est.transform(self._x(k)), dtype=float).tolist()}

    def predict(self, est, k, seed):
        return np.asarray(est.transform(self._x(k)), dtype=float).tolist()


class _ADV(_Adapter):
    pickles = False

    def build(self):
        from fairlearn.adversarial import AdversarialFairnessClassifier, AdversarialFairnessRegressor

        c = self.cfg
        cls = AdversarialFairnessRegressor if c["regressor"] else AdversarialFairnessClassifier
        return cls(backend="torch", predictor_model=list(c["pm"]), adversary_model=list(c["am"]), predictor_optimizer="SGD",
                   adversary_optimizer="SGD", learning_rate=c["lr"], alpha=c["alpha"], epochs=c["epochs"],
                   batch_size=c["batch_size"], shuffle=False, constraints=c["constraints"], warm_start=False,
                   random_state=c["seed"])


    def _xy(self, k):
        d = self.data(k)
        X = np.asarray(d["X"], dtype=float)
        if self.cfg["regressor"]:
            y = np.asarray(d["yreal"], dtype=float)
        else:
            enc = d.get("yenc") or [0, 1]  # the two datasets may use different label sets
            y = np.asarray([enc[v] for v in d["y"]])
        return X, y, np.asarray(d["g"])

    def fit(self, est, k):
        X, y, g = self._xy(k)
        return est.fit(X, y, sensitive_features=g)

    def state(self, est, k):
        X, y, g = self._xy(k)
        params = [p.detach().numpy().tolist() for p in est.backendEngine_.predictor_model.parameters()]
        params += [p.detach().numpy().tolist() for p in est.backendEngine_.adversary_model.parameters()]
        return {"raw": np.asarray(est._raw_predict(X), dtype=float).tolist(), "params": params, "n_iter": int(est.n_iter_),
                "pred": np.asarray(est.predict(X)).tolist()}

    def predict(self, est, k, seed):
        X, y, g = self._xy(k)
        return np.asarray(est.predict(X)).tolist()


ADAPTERS = {"to": _TO, "eg": _EG, "gs": _GS, "cr": _CR, "adv": _ADV}


def _same(a, b):
    """Deep equality with NaN == NaN for nested lists / dicts of floats."""
    if isinstance(a, dict):
        return isinstance(b, dict) and set(a) == set(b) and all(_same(a[k], b[k]) for k in a)
    if isinstance(a, (list, tuple)):
        return isinstance(b, (list, tuple)) and len(a) == len(b) and all(_same(x, y) for x, y in zip(a, b))
    if isinstance(a, float) and isinstance(b, float):
        return a == b or (np.isnan(a) and np.isnan(b))
    return a == b


def _diff(a, b):
    if isinstance(a, dict) and isinstance(b, dict):
        for k in a:
            if k not in b or not _same(a[k], b[k]):
                return f"field {k!r}: {str(a[k])[:200]} vs {str(b.get(k))[:200]}"
    return f"{str(a)[:200]} vs {str(b)[:200]}"


def check(case):
    ad = ADAPTERS[case["estimator"]](case)
    est = ad.build()
    params0 = est.get_params(deep=False)
    fitted_on = None
    hist = []
    tags = {"est:" + case["estimator"]}
    refit_diff = post_fit_copy = False
    seen_fit = set()
    for op in case["ops"]:
        hist.append(op)
        what = f"{case['estimator']} after history {hist}"
        if op in ("fit1", "fit2"):
            k = int(op[-1])
            r = ad.fit(est, k)
            if r is not est:
                raise PropertyViolation(f"{what}: fit returned {type(r).__name__ if r is not None else None}, not the estimator itself")
            if fitted_on is not None and fitted_on != k:
                refit_diff = True
            if fitted_on is not None:
                tags.add("refit")
            if seen_fit and "reconfig" in tags:
                tags.add("refit_after_reconfig")
            fitted_on = k
            seen_fit.add(k)
            ref = ad.fit(ad.build(), k)
            s_est, s_ref = ad.state(est, k), ad.state(ref, k)
            if not _same(s_est, s_ref):
                raise PropertyViolation(f"{what}: fitted state differs from a fresh estimator fitted on dataset {k}: {_diff(s_est, s_ref)}")
            ad.check_params(est, params0, what)
        elif op == "predict":
            if fitted_on is None:
                continue
            before = ad.state(est, fitted_on)
            a = ad.predict(est, fitted_on, case["seed"])
            b = ad.predict(est, fitted_on, case["seed"])
            if not _same(a, b):
                raise PropertyViolation(f"{what}: repeating predict with random_state={case['seed']} gives a different answer")
            ref = ad.fit(ad.build(), fitted_on)
            c = ad.predict(ref, fitted_on, case["seed"])
            if not _same(a, c):
                raise PropertyViolation(f"{what}: predict differs from a fresh estimator fitted on dataset {fitted_on}")
            if not _same(before, ad.state(est, fitted_on)):
                raise PropertyViolation(f"{what}: predict altered the fitted state")
            ad.check_params(est, params0, what)
        elif op == "reconfig":
            # set_params between fits: later fits must behave like a fresh estimator built with the new parameters
            c2 = case.get("config2")
            if not c2:
                continue
            upd, keys = ad.updates(c2)
            if not upd:
                continue
            merged = dict(ad.cfg)
            merged.update({k: c2[k] for k in keys})
            est.set_params(**upd)
            ad.cfg = merged
            params0 = est.get_params(deep=False)
            fitted_on = None  # whatever was fitted belongs to the old configuration
            tags.add("reconfig")
        elif op == "predict_other":
            if fitted_on is None:
                continue
            before = ad.state(est, fitted_on)
            try:  # the other dataset may legitimately be rejected (other width, unseen labels): no verdict on that
                ad.predict(est, 3 - fitted_on, case["seed"])
            except Exception:  # noqa: BLE001
                tags.add("predict_other_rejected")
            if not _same(before, ad.state(est, fitted_on)):
                raise PropertyViolation(f"{what}: predicting on other data altered the fitted state")
            ad.check_params(est, params0, what)
        elif op == "sibling_fit":
            # a second estimator with the same configuration is fitted (on the other dataset) and used: estimators share
            # no state through the class, the module or a default argument
            if fitted_on is None:
                continue
            before = ad.state(est, fitted_on)
            pred_before = ad.predict(est, fitted_on, case["seed"])
            sib = ad.fit(ad.build(), 3 - fitted_on)
            ad.predict(sib, 3 - fitted_on, case["seed"] + 1)
            if not _same(before, ad.state(est, fitted_on)):
                raise PropertyViolation(f"{what}: fitting another estimator of the same configuration on other data altered this one's fitted state: {_diff(before, ad.state(est, fitted_on))}")
            if not _same(pred_before, ad.predict(est, fitted_on, case["seed"])):
                raise PropertyViolation(f"{what}: fitting another estimator of the same configuration on other data altered this one's predictions")
            ad.check_params(est, params0, what)
            tags.add("sibling_fit")
        elif op == "pickle":
            if not ad.pickles:
                continue
            est2 = pickle.loads(pickle.dumps(est))
            if fitted_on is not None:
                post_fit_copy = True
                if not _same(ad.predict(est2, fitted_on, case["seed"]), ad.predict(est, fitted_on, case["seed"])):
                    raise PropertyViolation(f"{what}: the unpickled estimator predicts differently from the original")
                if not _same(ad.state(est2, fitted_on), ad.state(est, fitted_on)):
                    raise PropertyViolation(f"{what}: the unpickled estimator's fitted state differs from the original")
            est = est2
            params0 = est.get_params(deep=False)
        elif op == "clone":
            if fitted_on is not None:
                post_fit_copy = True
            est = clone(est)
            p1 = est.get_params(deep=False)
            for key, v0 in params0.items():
                if _prim(v0) and not (_prim(p1[key]) and _eq(v0, p1[key])):
                    raise PropertyViolation(f"{what}: clone changed parameter {key!r}: {v0!r} -> {p1[key]!r}")
            params0 = p1
            fitted_on = None
    if case["estimator"] == "adv" and refit_diff and len(set(case["D1"]["g"])) >= 3 and len(set(case["D2"]["g"])) >= 3 \
            and set(case["D1"]["g"]) != set(case["D2"]["g"]):
        tags.add("adv_refit_other_category_set")
    if case["estimator"] == "adv" and refit_diff and not case["config"]["regressor"] and \
            case["D1"].get("yenc") != case["D2"].get("yenc"):
        tags.add("adv_refit_other_label_set")
    if case.get("shared_X") and refit_diff:
        tags.add("refit_same_X_object_other_labels")
    if refit_diff or post_fit_copy or "refit_after_reconfig" in tags or "sibling_fit" in tags:
        tags.add("nt")
    if refit_diff:
        tags.add("refit_other_data")
    if post_fit_copy:
        tags.add("copy_after_fit")
    return sorted(tags)


# ---- data and configuration strategies ----------------------------------------------------------------------------


@st.composite
def _labelled(draw, min_per=2, max_per=5, labels=None, max_groups=3, min_groups=2):
    labels = labels or draw(st.sampled_from([["a", "b", "c"], [0, 1, 2], [5, 3, 9]]))
    k = draw(st.integers(min_groups, max_groups))
    g, y = [], []
    for i in range(k):
        m = draw(st.integers(min_per, max_per))
        g += [labels[i]] * m
        y += [0, 1] + [draw(st.integers(0, 1)) for _ in range(m - 2)]
    n = len(g)
    perm = draw(st.permutations(range(n)))
    g, y = [g[i] for i in perm], [y[i] for i in perm]
    return {"g": g, "y": y,
            "scores": draw(st.lists(st.sampled_from([0.0, 0.2, 0.4, 0.5, 0.6, 0.8, 1.0]), min_size=n, max_size=n)),
            "levels": draw(st.lists(st.integers(0, 2), min_size=n, max_size=n)),
            "yreal": draw(st.lists(st.sampled_from([0.0, 0.25, 0.5, 0.75, 1.0]), min_size=n, max_size=n)),
            "X": [[draw(st.sampled_from([-1.0, 0.0, 0.5, 1.0, 2.0])) for _ in range(3)] for _ in range(n)]}


@st.composite
def _ops_strategy(draw):
    """1..4 operations (a third of the histories: up to 7); four histories in five start with a fit so that later
    steps act on a fitted estimator."""
    first = draw(st.sampled_from(["fit1", "fit2", "fit1", "fit2", "any"]))
    rest = draw(st.lists(st.sampled_from(OPS + ["fit1", "fit2"] + EXTRA_OPS), min_size=0, max_size=draw(st.sampled_from([3, 3, 6]))))
    if first == "any":
        return draw(st.lists(st.sampled_from(OPS), min_size=1, max_size=4))
    return [first] + rest


_ops = _ops_strategy()


@st.composite
def _to_hist(draw):
    constraint = draw(st.sampled_from(["demographic_parity", "equalized_odds", "true_positive_rate_parity",
                                       "false_negative_rate_parity", "selection_rate_parity"]))
    return {"estimator": "to", "ops": draw(_ops), "seed": draw(st.integers(0, 99)),
            "D1": draw(_labelled()), "D2": draw(_labelled()),
            "config": {"constraint": constraint, "objective": draw(st.sampled_from(["accuracy_score", "balanced_accuracy_score"])),
                       "grid_size": draw(st.sampled_from([3, 10, 1000])), "flip": draw(st.booleans()), "prefit": draw(st.booleans())}}


@st.composite
def _eg_hist(draw):
    labels = draw(st.sampled_from([["a", "b", "c"], [0, 1, 2]]))
    return {"estimator": "eg", "ops": draw(_ops), "seed": draw(st.integers(0, 99)),
            "D1": draw(_labelled(min_per=3, max_per=6, labels=labels)), "D2": draw(_labelled(min_per=3, max_per=6, labels=labels)),
            "config": {"moment": draw(st.sampled_from(["DemographicParity", "EqualizedOdds", "TruePositiveRateParity",
                                                       "ErrorRateParity", "BoundedGroupLoss"])),
                       "bound": draw(st.sampled_from([0.01, 0.05, 0.2])), "eps": draw(st.sampled_from([0.01, 0.05])),
                       "max_iter": draw(st.sampled_from([2, 5, 10])),
                       "nu": draw(st.sampled_from([1e-6, 1e-3, 0.05, 1e-3, 0.05, None])),
                       "eta0": draw(st.sampled_from([0.5, 2.0])), "lp": draw(st.booleans()),
                       "costs": draw(st.sampled_from([None, None, {"fp": 1.0, "fn": 1.0}, {"fp": 0.5, "fn": 2.0}]))}}


def _share_X(draw, h):
    """In a third of the reduction histories D2 has the feature values of D1 (so the same X object is passed
    again) with the labels and groups of D1 in another order."""
    if draw(st.integers(0, 2)) == 0:
        d1 = h["D1"]
        n = len(d1["y"])
        perm = draw(st.permutations(range(n)))
        d2 = dict(d1)
        for key in ("y", "g", "yreal"):
            d2[key] = [d1[key][i] for i in perm]
        h["D2"] = d2
        h["shared_X"] = True
    return h


@st.composite
def _gs_hist(draw):
    labels = draw(st.sampled_from([["a", "b", "c"], [0, 1, 2]]))
    return {"estimator": "gs", "ops": draw(_ops), "seed": 0,
            "D1": draw(_labelled(min_per=3, max_per=6, labels=labels)), "D2": draw(_labelled(min_per=3, max_per=6, labels=labels)),
            "config": {"moment": draw(st.sampled_from(["DemographicParity", "EqualizedOdds", "FalsePositiveRateParity",
                                                       "ErrorRateParity", "BoundedGroupLoss"])),
                       "bound": draw(st.sampled_from([0.01, 0.05])), "grid_size": draw(st.sampled_from([3, 6, 11])),
                       "grid_limit": draw(st.sampled_from([0.5, 2.0])), "cw": draw(st.sampled_from([0.0, 0.5, 1.0]))}}


@st.composite
def _cr_data(draw, width, columns):
    n = draw(st.integers(3, 8))
    X = [[draw(st.sampled_from([-2.0, -1.0, 0.0, 0.5, 1.0, 2.0, 3.5])) + 0.25 * j * (i % 3) for j in range(width)] for i in range(n)]
    return {"X": X, "columns": columns}


@st.composite
def _cr_hist(draw):
    frame = draw(st.booleans())
    w1 = draw(st.integers(2, 5))
    w2 = draw(st.sampled_from([w1, w1, draw(st.integers(2, 5))]))
    if frame:
        names = ["s", "a", "b", "t", "c"]
        c1 = names[:w1]
        base2 = names[:w2]
        c2 = list(draw(st.permutations(base2)))
        ids = ["s"] if draw(st.booleans()) or min(w1, w2) < 4 else ["s", "t"]
        if "s" not in c2 or any(i not in c1 or i not in c2 for i in ids):
            ids = ["s"]
    else:
        c1, c2 = None, None
        ids = [0] if draw(st.booleans()) else [0, 1]
        if min(w1, w2) <= len(ids):
            ids = [0]
    return {"estimator": "cr", "ops": draw(_ops), "seed": 0,
            "D1": draw(_cr_data(w1, c1)), "D2": draw(_cr_data(w2, c2)),
            "config": {"ids": ids, "alpha": draw(st.sampled_from([1.0, 0.5, 0.0])), "frame": frame}}


@st.composite
def _adv_hist(draw):
    reg = draw(st.booleans())
    # up to four categories of the sensitive feature; the two datasets may see different subsets of them
    labels = draw(st.sampled_from([[0, 1, 2, 3], ["a", "b", "c", "d"]]))
    d1 = draw(_labelled(min_per=2, max_per=3, labels=labels, max_groups=4))
    d2 = draw(_labelled(min_per=2, max_per=3, labels=labels, max_groups=4))
    encs = [[0, 1], ["no", "yes"], [1, 2], [0, 1], ["b", "a"]]
    d1["yenc"] = draw(st.sampled_from(encs))
    d2["yenc"] = draw(st.sampled_from(encs))
    return {"estimator": "adv", "ops": draw(_ops), "seed": 0,
            "D1": d1, "D2": d2,
            "config": {"regressor": reg, "pm": draw(st.sampled_from([[], [3, "leaky_relu"], [2, "sigmoid"]])),
                       "am": draw(st.sampled_from([[], [2, "leaky_relu"]])), "lr": draw(st.sampled_from([0.1, 0.01])),
                       "alpha": draw(st.sampled_from([0.0, 1.0])), "epochs": draw(st.sampled_from([1, 2])),
                       "batch_size": draw(st.sampled_from([-1, 3, 4])),
                       "constraints": draw(st.sampled_from(["demographic_parity", "equalized_odds"])),
                       "seed": draw(st.integers(0, 5))}}


@st.composite
def _adv_refit_hist(draw):
    """Adversarial refits whose second dataset has fewer (but still >= 3) categories of the sensitive feature, or
    another label encoding: re-initialisation must also rebuild the encoders."""
    h = draw(_adv_hist())
    labels = draw(st.sampled_from([[0, 1, 2, 3], ["a", "b", "c", "d"]]))
    d1 = draw(_labelled(min_per=2, max_per=3, labels=labels, max_groups=4, min_groups=4))
    d2 = draw(_labelled(min_per=2, max_per=3, labels=labels, max_groups=4, min_groups=4))
    drop = draw(st.sampled_from(labels))
    keep = [i for i, g in enumerate(d2["g"]) if g != drop]
    d2 = {k: ([v[i] for i in keep] if isinstance(v, list) and len(v) == len(d2["g"]) else v) for k, v in d2.items()}
    encs = [[0, 1], ["no", "yes"], [1, 2]]
    d1["yenc"], d2["yenc"] = draw(st.sampled_from(encs)), draw(st.sampled_from(encs))
    if draw(st.booleans()):  # ... and another number of features
        d2["X"] = [row[:2] for row in d2["X"]]
    if draw(st.booleans()):
        d1, d2 = d2, d1
    h["D1"], h["D2"] = d1, d2
    h["ops"] = draw(st.sampled_from([["fit1", "fit2"], ["fit1", "predict", "fit2"], ["fit2", "fit1", "predict"], ["fit1", "fit2", "fit1"]]))
    h["config2"] = {}
    return h


@st.composite
def _hist_strategy(draw):
    h = draw(st.one_of(_to_hist(), _eg_hist(), _gs_hist(), _cr_hist(), _adv_hist(), _eg_hist(), _gs_hist()))
    if h["estimator"] in ("eg", "gs"):
        h = _share_X(draw, h)
    vals = RECONF_VALUES[h["estimator"]]
    h["config2"] = {k: draw(st.sampled_from(v)) for k, v in vals.items()}
    if h["estimator"] == "to":
        h["config"]["scorer"] = draw(st.sampled_from(["column", "shift", "predonly", "multi"]))
        h["config"]["pm"] = draw(st.sampled_from(["predict", "auto", "auto", "predict_proba", "decision_function"]))
        # a re-configuration changes a drawn subset of the parameters (the others keep their value)
        keep = draw(st.lists(st.sampled_from(sorted(h["config2"])), min_size=1, max_size=4, unique=True))
        h["config2"] = {k: h["config2"][k] for k in keep}
    return h


@st.composite
def _reconf_strategy(draw):
    """Histories built around a set_params re-configuration between two fits (ThresholdOptimizer twice as often:
    its base estimator, predict_method, constraints and objective are all replaceable)."""
    h = draw(_hist_strategy())
    if h["estimator"] != "to" and draw(st.booleans()):
        h = draw(_hist_strategy())
    h["ops"] = draw(st.sampled_from([["fit1", "reconfig", "fit1"], ["fit1", "reconfig", "fit2", "predict"],
                                     ["fit1", "pickle", "reconfig", "fit1"], ["fit2", "reconfig", "fit1", "pickle"],
                                     ["fit1", "predict", "reconfig", "fit1", "predict"], ["fit2", "reconfig", "clone", "fit2"]]))
    return h


# ---- exhaustive histories ------------------------------------------------------------------------------------------

_TO_D = [
    {"g": ["a", "a", "b", "b", "a", "b"], "y": [0, 1, 0, 1, 1, 0], "scores": [0.2, 0.8, 0.4, 0.6, 0.5, 0.0]},
    {"g": ["b", "a", "a", "b", "b", "a", "c", "c"], "y": [1, 0, 1, 0, 1, 0, 1, 0], "scores": [0.5, 0.5, 0.2, 0.8, 0.4, 1.0, 0.6, 0.6]},
]
_CR_D = [
    {"X": [[1.0, 2.0, 0.0], [0.0, 1.0, 1.0], [2.0, 0.5, 3.0], [1.5, 4.0, 1.0]], "columns": ["s", "a", "b"]},
    {"X": [[0.0, 1.0, 2.0, 0.5], [2.0, 0.0, 1.0, 1.0], [1.0, 3.0, 0.5, 2.0], [0.5, 1.0, 4.0, 0.0], [3.0, 2.0, 1.0, 1.0]],
     "columns": ["a", "s", "b", "c"]},
]


_RED_D = [
    {"g": [1, 0, 0, 1, 0, 1, 0, 1, 1, 0, 0, 1, 0, 0], "y": [0, 1, 1, 0, 1, 0, 0, 1, 1, 0, 1, 1, 0, 1],
     "levels": [0, 2, 1, 0, 1, 2, 0, 0, 1, 2, 2, 1, 0, 1], "yreal": [0.0] * 14, "scores": [0.0] * 14, "X": [[0.0]] * 14},
    {"g": [0, 0, 1, 1, 0, 1, 1, 0, 1, 0, 1, 0], "y": [1, 0, 0, 1, 1, 1, 0, 0, 1, 0, 1, 0],
     "levels": [1, 1, 0, 2, 0, 2, 1, 0, 0, 2, 1, 2], "yreal": [0.0] * 12, "scores": [0.0] * 12, "X": [[0.0]] * 12},
]


_RED_D2_SAME_X = dict(_RED_D[0], y=[1 - v for v in _RED_D[0]["y"]][::-1], g=_RED_D[0]["g"][::-1])


def _enumerate(tier):
    max_len = 3 if tier == "quick" else 4
    seqs = [list(s) for L in range(1, max_len + 1) for s in itertools.product(OPS + ["reconfig"], repeat=L)]
    to_cfgs = [({"constraint": "equalized_odds", "objective": "accuracy_score", "grid_size": 10, "flip": True, "prefit": False,
                 "scorer": "shift", "pm": "auto"}, {"grid_size": 3, "flip": False, "scorer": "multi"}),
               ({"constraint": "demographic_parity", "objective": "balanced_accuracy_score", "grid_size": 2, "flip": False,
                 "prefit": True, "scorer": "column"}, {"grid_size": 40, "flip": True})]
    cr_cfgs = [({"ids": ["s"], "alpha": 1.0, "frame": True}, {"alpha": 0.5}), ({"ids": [0], "alpha": 0.5, "frame": False}, {"alpha": 1.0})]
    for s in seqs:
        if s.count("reconfig") > 1:
            continue
        for cfg, cfg2 in to_cfgs:
            yield {"estimator": "to", "ops": s, "seed": 3, "D1": _TO_D[0], "D2": _TO_D[1], "config": dict(cfg), "config2": cfg2}
        for cfg, cfg2 in cr_cfgs:
            yield {"estimator": "cr", "ops": s, "seed": 0, "D1": _CR_D[0], "D2": _CR_D[1], "config": dict(cfg), "config2": cfg2}
        if len(s) <= max_len - 1:  # the reductions are costlier: one operation fewer
            yield {"estimator": "gs", "ops": s, "seed": 0, "D1": _RED_D[0], "D2": _RED_D[1],
                   "config": {"moment": "DemographicParity", "bound": 0.01, "grid_size": 11, "grid_limit": 2.0, "cw": 0.0},
                   "config2": {"cw": 1.0, "grid_size": 6}}
            yield {"estimator": "eg", "ops": s, "seed": 5, "D1": _RED_D[0], "D2": _RED_D2_SAME_X,
                   "config": {"moment": "EqualizedOdds", "bound": 0.05, "eps": 0.05, "max_iter": 5, "nu": 1e-3, "eta0": 2.0, "lp": False, "costs": {"fp": 0.5, "fn": 2.0}},
                   "config2": {"eps": 0.2, "lp": True}}


def in_d9(sub_name, case):
    return case["estimator"] == "eg" and case["config"].get("nu") is None


REGIONS = {"D9": in_d9}
_D9_PROBE = {"estimator": "eg", "ops": ["fit1"], "seed": 0,
             "D1": {"g": ["a", "a", "a", "b", "b", "b"], "y": [0, 1, 1, 0, 1, 0], "levels": [0, 1, 1, 0, 1, 0],
                    "yreal": [0.0] * 6, "scores": [0.0] * 6, "X": [[0.0]] * 6},
             "D2": {"g": ["a", "a", "a", "b", "b", "b"], "y": [1, 0, 1, 0, 0, 1], "levels": [0, 1, 0, 1, 1, 0],
                    "yreal": [0.0] * 6, "scores": [0.0] * 6, "X": [[0.0]] * 6},
             "config": {"moment": "DemographicParity", "bound": 0.05, "eps": 0.05, "max_iter": 5, "nu": None, "eta0": 2.0, "lp": True}}
PROBES = {"D9": [("histories_sampled", _D9_PROBE)]}

SUBS = [
    Sub("histories_sampled", check, strategy=_hist_strategy, quick=220, thorough=6000, shards=16, shrink_quick=False,
        floors={"nt": 0.142, "refit_other_data": 0.06, "copy_after_fit": 0.075, "est:to": 0.05, "est:eg": 0.099, "est:gs": 0.088,
                "est:cr": 0.05, "est:adv": 0.05}),
    Sub("reconfigured_refits", check, strategy=_reconf_strategy, quick=160, thorough=4000, shards=16, shrink_quick=False,
        floors={"reconfig": 0.45, "est:to": 0.076, "refit_after_reconfig": 0.4}),
    Sub("histories_exhaustive", check, enumerate=_enumerate, shards=16, exhaustive=True),
    Sub("adversarial_refits", check, strategy=_adv_refit_hist, quick=48, thorough=800, shards=16, shrink_quick=False,
        floors={"adv_refit_other_category_set": 0.45}),
]
