"""C01 - MetricFrame disaggregation is exact: each cell is the metric on that subgroup.

Oracle: boolean masks over the generated rows (no pandas groupby); the metric program itself is
called on the sliced numpy arrays with the per-sample parameters sliced the same way.
"""

from __future__ import annotations

import itertools

import numpy as np
import pandas as pd
from hypothesis import strategies as st

from vf import mfcommon as M
from vf.runner import PropertyViolation, Skip, Sub

PROPERTY = "C01"
LEVEL = "exploration"
RULE = (
    "Hypothesis builds the grouping table cell by cell over the Cartesian product of 1..3 sensitive "
    "and 0..2 control columns (cells get 0, 1 or several rows, so empty intersections and "
    "single-member groups are frequent), fills labels/predictions, draws 1..3 metric programs (bare "
    "callable or dict) with 0..2 per-sample parameters each, and a container + pandas index plan for "
    "every argument. Non-trivial: >= 2 occupied cells and (>= 2 grouping columns or >= 1 per-sample "
    "parameter). Distinct = distinct canonical JSON of the case."
)
ASSUMPTIONS = [
    "metric programs are scalar-valued and insensitive to row order up to floating-point (1e-9 relative)",
    "group values of one column share one Python type (fairlearn sorts levels with numpy.unique)",
    "repaired finding D12 (internal column-name collisions) is part of the ordinary search (class 'name_collision')",
]


def _frame(obj, name):
    if isinstance(obj, pd.Series):
        return obj.to_frame(name)
    return obj


def check(case):
    from fairlearn.metrics import MetricFrame

    from vf import gen

    kw = M.build_metricframe_kwargs(case)
    snap = gen.snapshot(kw)
    MetricFrame(**kw)
    M.need(gen.unchanged(snap, kw), "MetricFrame modified one of its arguments in place (labels, predictions, features or sample parameters)")
    if case.get("twice"):
        # the frame under test is the *second* one built from the very same argument objects: constructing a
        # MetricFrame must not consume or modify what the caller passed in (dicts, arrays, Series)
        MetricFrame(**kw)
        sfo = kw["sensitive_features"]
        if case.get("edit_inplace") and isinstance(sfo, (np.ndarray, pd.DataFrame, pd.Series)) and case["n"] >= 2:
            # ... and it must read the containers again: the feature container is edited in place (rows rotated by
            # one) between the two constructions, and the oracle follows the new contents
            if isinstance(sfo, np.ndarray):
                sfo[...] = np.roll(sfo.copy(), 1, axis=0)
            elif isinstance(sfo, pd.DataFrame):
                for j in range(sfo.shape[1]):
                    sfo.iloc[:, j] = np.roll(sfo.iloc[:, j].to_numpy(), 1)
            else:
                sfo.iloc[:] = np.roll(sfo.to_numpy(), 1)
            case = dict(case, sf=dict(case["sf"], cols=[[c[-1]] + list(c[:-1]) for c in case["sf"]["cols"]]))
    mf = MetricFrame(**kw)

    n = case["n"]
    sf_cols = case["sf"]["cols"]
    cf_cols = case["cf"]["cols"] if case.get("cf") else []
    items = case["metrics"]
    is_callable = case["mode"] == "callable"
    names = [it["name"] for it in items]

    # --- names of the levels -----------------------------------------------------------------
    feat_names = M.effective_feature_names(case)
    exp_sf_names = feat_names[: len(sf_cols)]
    exp_cf_names = feat_names[len(sf_cols):]
    M.need(list(mf.sensitive_levels) == exp_sf_names, f"sensitive_levels {mf.sensitive_levels} != {exp_sf_names}")
    if cf_cols:
        M.need(list(mf.control_levels) == exp_cf_names, f"control_levels {mf.control_levels} != {exp_cf_names}")
    else:
        M.need(mf.control_levels is None, f"control_levels {mf.control_levels} without control features")

    # --- documented return types ---------------------------------------------------------------
    bg, ov = mf.by_group, mf.overall
    if is_callable:
        M.need(isinstance(bg, pd.Series), f"by_group of a bare callable is {type(bg).__name__}, not Series")
        if cf_cols:
            M.need(isinstance(ov, pd.Series), f"overall with control features is {type(ov).__name__}")
        else:
            M.need(np.ndim(ov) == 0, f"overall of a bare callable is not a scalar: {ov!r}")
    else:
        M.need(isinstance(bg, pd.DataFrame), f"by_group of a metric dict is {type(bg).__name__}")
        M.need(list(bg.columns) == names, f"by_group columns {list(bg.columns)} != {names}")
        if cf_cols:
            M.need(isinstance(ov, pd.DataFrame), f"overall (dict, control) is {type(ov).__name__}")
        else:
            M.need(isinstance(ov, pd.Series), f"overall (dict) is {type(ov).__name__}")
            M.need(list(ov.index) == names, f"overall index {list(ov.index)} != {names}")

    # --- by_group: index and cells -----------------------------------------------------------------
    group_cols = cf_cols + sf_cols
    masks = M.cell_masks(group_cols)
    bgf = _frame(bg, names[0])
    keys = M.index_keys(bgf.index)
    M.need(len(set(keys)) == len(keys), f"by_group index has duplicate entries: {bgf.index.tolist()}")
    M.need(set(keys) == set(masks), f"by_group index {sorted(set(keys))} != expected cells {sorted(masks)}")
    M.need(list(bgf.index.names) == exp_cf_names + exp_sf_names,
           f"by_group index names {list(bgf.index.names)} != {exp_cf_names + exp_sf_names}")
    occupied = 0
    single = empty = 0
    for pos, key in enumerate(keys):
        mask = masks[key]
        cnt = int(mask.sum())
        occupied += cnt > 0
        single += cnt == 1
        empty += cnt == 0
        for j, it in enumerate(items):
            got = bgf.iloc[pos, j]
            if cnt == 0:
                M.need(pd.isna(got) if np.ndim(got) == 0 else False,
                       f"empty cell {key} of metric {it['name']} is {got!r}, expected NaN")
            else:
                exp = M.ref_metric(it, case, mask)
                M.need(np.ndim(got) == 0 and M.close(got, exp, 1e-9, max(abs(float(exp)), 1e-300)),
                       f"by_group[{key}][{it['name']}] = {got!r}, metric on exactly those {cnt} rows = {exp!r}")

    # --- overall ---------------------------------------------------------------------------------
    if not cf_cols:
        allmask = np.ones(n, dtype=bool)
        for j, it in enumerate(items):
            got = ov if is_callable else ov.iloc[j]
            exp = M.ref_metric(it, case, allmask)
            M.need(np.ndim(got) == 0 and M.close(got, exp), f"overall[{it['name']}] = {got!r}, metric on all rows = {exp!r}")
    else:
        cmasks = M.cell_masks(cf_cols)
        ovf = _frame(ov, names[0])
        ckeys = M.index_keys(ovf.index)
        M.need(len(set(ckeys)) == len(ckeys) and set(ckeys) == set(cmasks),
               f"overall index {ckeys} != control cells {sorted(cmasks)}")
        for pos, key in enumerate(ckeys):
            mask = cmasks[key]
            for j, it in enumerate(items):
                got = ovf.iloc[pos, j]
                if mask.sum() == 0:
                    M.need(np.ndim(got) == 0 and pd.isna(got), f"overall of empty control cell {key} is {got!r}")
                else:
                    exp = M.ref_metric(it, case, mask)
                    M.need(np.ndim(got) == 0 and M.close(got, exp),
                           f"overall[{key}][{it['name']}] = {got!r}, metric on the stratum's rows = {exp!r}")

    tags = []
    has_params = any(it["params"] for it in items)
    if occupied >= 2 and (len(group_cols) >= 2 or has_params):
        tags.append("nt")
    if occupied >= 2:
        tags.append("groups>=2")
    if single:
        tags.append("single_member_cell")
    if empty:
        tags.append("empty_cell")
    if n == 1:
        tags.append("n1")
    if len(items) >= 2:
        tags.append("dict>=2")
    if cf_cols:
        tags.append("control")
    if "categorical" in case["sf"]["kind"] or (case.get("cf") and "categorical" in case["cf"]["kind"]):
        tags.append("category_dtype_features")
    if has_params:
        tags.append("sample_params")
    if len(sf_cols) >= 2:
        tags.append("sf>=2")
    if M.column_collision(case):
        tags.append("name_collision")
    if case.get("twice") and has_params:
        tags.append("second_construction_same_objects")
    if case.get("twice") and case.get("edit_inplace") and case["sf"]["kind"] in ("ndarray", "ndarray2d", "dataframe", "series", "series_noname") and n >= 2:
        tags.append("features_edited_in_place")
    return tags


@st.composite
def _strategy(draw):
    c = draw(M.mf_case())
    c["twice"] = draw(st.booleans())
    c["edit_inplace"] = draw(st.booleans())
    return c


def in_d12(sub_name, case):
    return M.column_collision(case)


def check_large(case):
    """Thousands of rows (data expanded from a drawn numpy seed): cells and overall against boolean masks."""
    import fairlearn.metrics as fm
    from fairlearn.metrics import MetricFrame

    rs = np.random.RandomState(case["seed"])
    n = case["n"]
    feats = [rs.randint(0, k, size=n) for k in case["levels"]]
    # one rare level combination: the last rows only
    for f in feats:
        f[-case["rare"]:] = f.max() + 1
    yt = rs.randint(0, 2, size=n)
    yp = rs.randint(0, 2, size=n)
    w = rs.randint(1, 5, size=n).astype(float) * case["wscale"]
    names = ["f%d" % j for j in range(len(feats))]
    if case.get("str_labels"):
        # string labels whose lexicographic order differs from the numeric one ('g10' < 'g2')
        feats = [np.array(["g%d" % v for v in f]) for f in feats]
    n_cf = min(case.get("n_cf", 0), len(feats) - 1)
    cols = pd.DataFrame({nm: f for nm, f in zip(names, feats)}) if case["frame"] else np.column_stack(feats)
    if n_cf:
        # the first n_cf columns act as control features
        cf = cols.iloc[:, :n_cf] if case["frame"] else cols[:, :n_cf]
        sf = cols.iloc[:, n_cf:] if case["frame"] else cols[:, n_cf:]
        extra = {"control_features": cf}
    else:
        sf, extra = cols, {}
    metrics = {"count": fm.count, "sel": fm.selection_rate, "wacc": M.m_wmean}
    mf = MetricFrame(metrics=metrics, y_true=yt, y_pred=yp, sensitive_features=sf,
                     sample_params={"sel": {"sample_weight": w}, "wacc": {"sample_weight": w}}, **extra)
    bg = mf.by_group
    M.need(len(set(bg.index.tolist())) == len(bg), "by_group index has duplicate entries")
    expected_cells = 1
    for f in feats:
        expected_cells *= len(set(f.tolist()))
    M.need(len(bg) == expected_cells, f"by_group has {len(bg)} rows, the Cartesian product of the observed levels has {expected_cells}")
    seen = 0
    for key, row in zip(bg.index.tolist(), bg.itertuples(index=False)):
        key = key if isinstance(key, tuple) else (key,)
        mask = np.ones(n, dtype=bool)
        for f, v in zip(feats, key):
            mask &= f == v
        if mask.sum() == 0:
            M.need(all(pd.isna(x) for x in row), f"empty cell {key} is {tuple(row)}, expected NaN")
            continue
        seen += int(mask.sum())
        exp = (int(mask.sum()), float(w[mask & (yp == 1)].sum() / w[mask].sum()), float((w[mask] * (yt[mask] == yp[mask])).sum() / w[mask].sum()))
        for got, e, nm in zip(row, exp, ("count", "sel", "wacc")):
            M.need(np.ndim(got) == 0 and M.close(got, e, 1e-9, max(abs(e), 1e-300)), f"by_group[{key}][{nm}] = {got!r}, from the {int(mask.sum())} rows of the cell: {e!r}")
    M.need(seen == n, f"cells cover {seen} of {n} rows")
    ov = mf.overall
    tags = ["nt", f"n={n}"]
    if n_cf:
        tot = 0
        for key, row in zip(ov.index.tolist(), ov.itertuples(index=False)):
            key = key if isinstance(key, tuple) else (key,)
            mask = np.ones(n, dtype=bool)
            for f, v in zip(feats[:n_cf], key):
                mask &= f == v
            tot += int(mask.sum())
            if mask.sum() == 0:  # a combination of control levels without rows: NaN, like an empty by_group cell
                M.need(all(pd.isna(x) for x in row), f"overall[{key}] = {tuple(row)} for an empty control combination, expected NaN")
                continue
            M.need(float(row[0]) == mask.sum() and M.close(row[1], float(w[mask & (yp == 1)].sum() / w[mask].sum())),
                   f"overall[{key}] = {tuple(row)} for the {int(mask.sum())} rows of that control combination")
        M.need(tot == n, f"control combinations of overall cover {tot} of {n} rows")
        tags.append("control")
    else:
        M.need(float(ov["count"]) == n and M.close(ov["sel"], float(w[yp == 1].sum() / w.sum())), f"overall {ov.to_dict()}")
    if len(bg) >= 30:
        tags.append("cells>=30")
    return tags


def check_sparse_product(case):
    """Three grouping columns with ~50 observed levels each on a few dozen rows: by_group still lists the whole Cartesian
    product of the observed levels (more than 2**17 combinations), NaN everywhere except at the observed combinations."""
    import fairlearn.metrics as fm
    from fairlearn.metrics import MetricFrame

    rs = np.random.RandomState(case["seed"])
    n, L = case["n"], case["levels"]
    feats = [np.r_[np.arange(L), rs.randint(0, L, size=n - L)] for _ in range(3)]
    for f in feats:
        rs.shuffle(f)
    yp = rs.randint(0, 2, size=n)
    sf = pd.DataFrame({"f%d" % j: f for j, f in enumerate(feats)})
    mf = MetricFrame(metrics={"count": fm.count, "sel": fm.selection_rate}, y_true=yp, y_pred=yp, sensitive_features=sf)
    bg = mf.by_group
    M.need(len(bg) == L ** 3, f"by_group has {len(bg)} rows, the Cartesian product of the observed levels has {L ** 3}")
    filled = bg.dropna(how="all")
    combos = {}
    for i in range(n):
        combos.setdefault(tuple(int(f[i]) for f in feats), []).append(i)
    M.need(len(filled) == len(combos), f"{len(filled)} non-NaN rows for {len(combos)} observed combinations")
    for key, rows in combos.items():
        got = bg.loc[key]
        M.need(float(got["count"]) == len(rows) and abs(float(got["sel"]) - float(yp[rows].mean())) < 1e-12,
               f"by_group[{key}] = {got.to_dict()} for the {len(rows)} rows of that combination")
    return ["nt", "cells>2**17"] if L ** 3 > 2 ** 17 else ["nt"]


@st.composite
def _sparse_product_cases(draw):
    L = draw(st.sampled_from([51, 52, 55, 60]))
    return {"levels": L, "n": draw(st.integers(L + 1, L + 40)), "seed": draw(st.integers(0, 2**31 - 1))}


@st.composite
def _large_strategy(draw):
    k = draw(st.integers(1, 3))
    levels = [draw(st.sampled_from([2, 3, 4, 12, 40])) for _ in range(k)]
    while np.prod([v + 1 for v in levels]) > 2500:
        levels[levels.index(max(levels))] = 4
    return {"n": draw(st.sampled_from([1000, 2500, 5000, 12000, 1024, 4096, 8191])), "seed": draw(st.integers(0, 2**31 - 1)),
            "levels": levels, "rare": draw(st.sampled_from([1, 2, 7])),
            "wscale": draw(st.sampled_from([1.0, 0.25, 1e-6])), "frame": draw(st.booleans()),
            "str_labels": draw(st.booleans()), "n_cf": draw(st.sampled_from([0, 0, 1, 2]))}


REGIONS = {}  # D12 was repaired in /repo: its former region is part of the ordinary search (class 'name_collision')

_D12_PROBE = {
    "n": 4,
    "sf": {"cols": [["a", "a", "b", "b"]], "names": ["sf"], "kind": "list", "index": "default"},
    "cf": None,
    "y_true": [0, 1, 0, 1],
    "y_pred": [1, 1, 0, 0],
    "yt_kind": "list", "yp_kind": "list", "yt_index": "default", "yp_index": "default",
    "mode": "dict",
    "metrics": [
        {"name": "a", "func": "lin", "params": {"b_c": {"values": [1.0, 0.0, 0.0, 0.0], "kind": "list", "index": "default"}}},
        {"name": "a_b", "func": "lin", "params": {"c": {"values": [0.0, 0.0, 0.0, 1.0], "kind": "list", "index": "default"}}},
    ],
}
PROBES = {}

SUBS = [
    Sub("cells", check, strategy=_strategy, quick=1500, thorough=40000, shards=16,
        floors={"nt": 0.3, "groups>=2": 0.349, "single_member_cell": 0.2, "empty_cell": 0.099, "control": 0.15,
                "sample_params": 0.214, "dict>=2": 0.12, "n1": 0.003}),
    Sub("sparse_product", check_sparse_product, strategy=_sparse_product_cases, quick=4, thorough=24, shards=4, shrink_quick=False),
    Sub("cells_large", check_large, strategy=_large_strategy, quick=32, thorough=400, shards=16, shrink_quick=False,
        floors={"cells>=30": 0.25, "control": 0.12}),
]
