"""C13 - multiple sensitive/control columns group rows by tuple equality, collision-free.

Oracle: the partition of the rows induced by Python tuple equality of the stringified cells.  It is compared
with the partition the code induces, observed behaviourally: gamma of a moment under indicator predictors
(membership, not just counts), keys / per-row pmf / parity invariant of ThresholdOptimizer, the group level
of the index after GridSearch / ExponentiatedGradient fits, and MetricFrame's non-empty cells.
"""

from __future__ import annotations

import itertools

import numpy as np
import pandas as pd
from hypothesis import strategies as st

from vf.learners import ExactTable, ScoreColumn
from vf.runner import PropertyViolation, Sub

PROPERTY = "C13"
LEVEL = "exploration"
RULE = (
    "Tables of 2..3 string columns whose cells are drawn from strings of length 0..3 over the alphabet "
    "{'a', ',', '\\\\', ' ', '1', '.', '0'} plus fixed collision-prone cells ('a,b', 'a\\\\', ',b', '1', '1.0', '01', "
    "''), with 2..5 distinct tuples chosen first (so equal tuples are common) and rows assigned to them; given "
    "as 2-d ndarray, DataFrame or list of lists; used as sensitive features (and as control features) of the "
    "parity moments, of GridSearch / ExponentiatedGradient and of ThresholdOptimizer. Non-trivial: >= 2 "
    "distinct tuples of which at least one contains the separator ',' or the escape '\\\\', or an integer-coded table "
    "(cells -2..10 handed over as int ndarray / DataFrame / lists) with a negative code; class "
    "'naive_join_collides' marks tables whose tuples collide under an unescaped ','-join."
)
ASSUMPTIONS = [
    "cells are strings (the code stringifies cells, so 1 and '1' are the same group by specification)",
    "ThresholdOptimizer needs both labels in every group: rows are constructed accordingly",
    "tolerance 1e-9 on gamma / pmf comparisons",
]

CELLS = ["a", "b", ",", "\\", "", " ", "None", "1", "1.0", "01", "a,b", "a\\", ",b", "\\,", "a,", "b\\\\", ",,", "a\\,b"]
CHARS = ["a", ",", "\\", " ", "1", ".", "0", "b", "c"]


def _tuples_partition(table):
    """{tuple: [row indices]} by Python equality of the stringified cells."""
    out = {}
    for i, row in enumerate(table):
        out.setdefault(tuple(str(x) for x in row), []).append(i)
    return out


def _wrap_table(kind, table, names=None):
    ncol = len(table[0])
    if kind == "ndarray":
        return np.array(table, dtype=object)
    if kind == "ndarray_str":
        return np.array(table, dtype=str)
    if kind == "ndarray_mixed":
        # numeric-looking cells handed over as ints: the code stringifies cells, so 1 and '1' are one value
        arr = np.empty((len(table), ncol), dtype=object)
        for i, row in enumerate(table):
            for j, c in enumerate(row):
                arr[i, j] = None if c == "None" else int(c) if (c.isdigit() and (c == "0" or not c.startswith("0"))) else c
        return arr
    if kind in ("ndarray_int", "dataframe_int", "listoflists_int"):
        # integer-coded columns (e.g. -1 = unknown) handed over as integers
        ints = [[int(c) for c in row] for row in table]
        if kind == "ndarray_int":
            return np.array(ints, dtype=np.int64)
        if kind == "listoflists_int":
            return ints
        return pd.DataFrame(ints, columns=names or [f"c{j}" for j in range(ncol)], index=np.arange(len(table))[::-1])
    if kind == "listoflists_mixed":
        return [[None if c == "None" else c for c in row] for row in table]
    if kind == "dataframe":
        names = names or [f"c{j}" for j in range(ncol)]
        return pd.DataFrame([list(r) for r in table], columns=names, index=np.arange(len(table))[::-1])
    if kind == "listoflists":
        return [list(r) for r in table]
    raise ValueError(kind)


def _is_int_table(table):
    return all(c.lstrip("-").isdigit() and str(int(c)) == c for row in table for c in row)


def _none_kind(draw, table, kind):
    """Tables with the cell 'None': hand it over as the Python object None (lists / object arrays) two times in three."""
    if any(c == "None" for row in table for c in row) and draw(st.integers(0, 2)) > 0:
        return draw(st.sampled_from(["ndarray_mixed", "listoflists_mixed"]))
    return kind


def _int_kind(draw, table, kind):
    """For tables whose cells are all canonical integers: hand them over as integers two times in three."""
    if _is_int_table(table) and draw(st.integers(0, 2)) > 0:
        return draw(st.sampled_from(["ndarray_int", "dataframe_int", "listoflists_int"]))
    return kind


def _tags(part):
    tags = []
    special = any(("," in c or "\\" in c) for t in part for c in t)
    if len(part) >= 2 and special:
        tags.append("nt")
    if len(part) >= 2 and all(c.lstrip("-").isdigit() for t in part for c in t) and any(c.startswith("-") for t in part for c in t):
        tags += ["nt", "integer_codes_with_negative"] if "nt" not in tags else ["integer_codes_with_negative"]
    naive = {}
    for t in part:
        naive.setdefault(",".join(t), []).append(t)
    if any(len(v) > 1 for v in naive.values()):
        tags.append("naive_join_collides")
    half = {}
    for t in part:
        half.setdefault(",".join(c.replace(",", "\\,") for c in t), []).append(t)
    if any(len(v) > 1 for v in half.values()):
        tags.append("separator_only_escape_collides")
    return tags


def check_moment(case):
    """Membership of every tuple group through gamma under indicator predictors."""
    import fairlearn.reductions as fr

    table = case["table"]
    n = len(table)
    part = _tuples_partition(table)
    as_control = case["role"] == "control"
    X = np.arange(n, dtype=float).reshape(n, 1)
    y = np.asarray(case["y"])
    mom = getattr(fr, case["moment"])()
    feat = _wrap_table(case["kind"], table)
    if as_control:
        single = np.asarray(case["single"])
        mom.load_data(X, y, sensitive_features=single, control_features=feat)
    else:
        mom.load_data(X, y, sensitive_features=feat)
    idx = mom.index
    plus = [e for e in idx.tolist() if e[0] == "+"]
    if not as_control:
        groups = {e[2] for e in plus}
        cond = {"TruePositiveRateParity": 1, "FalsePositiveRateParity": 0}.get(case["moment"])
        expected = [t for t, rows in part.items() if cond is None or any(y[i] == cond for i in rows)]
        if len(groups) != len(expected):
            raise PropertyViolation(f"{case['moment']}: {len(groups)} groups in Moment.index for {len(expected)} distinct tuples (with a row in the conditioned class); groups {sorted(map(str, groups))}, tuples {sorted(expected)}")
        if case["moment"] != "DemographicParity":
            return _tags(part) + ["role:sensitive"]
        for t, rows in part.items():
            h = np.zeros(n)
            h[rows] = 1.0
            gam = mom.gamma(lambda X_: h)
            p = len(rows) / n
            vals = {e[2]: float(gam[e]) for e in plus}
            hits = [g for g, v in vals.items() if abs(v - (1 - p)) < 1e-9]
            others = [g for g, v in vals.items() if abs(v + p) < 1e-9]
            if len(hits) != 1 or len(hits) + len(others) != len(vals):
                raise PropertyViolation(f"DemographicParity: rows of tuple {t} (rows {rows}) are not exactly one group of the moment: gamma under their indicator = {vals}, expected one entry {1 - p} and the others {-p}")
        return _tags(part) + ["role:sensitive"]
    # control features: every control tuple is exactly one stratum
    events = {e[1] for e in plus}
    if case["moment"] == "DemographicParity":
        if len(events) != len(part):
            raise PropertyViolation(f"DemographicParity with control features: {len(events)} events for {len(part)} distinct control tuples: {sorted(map(str, events))} vs {sorted(part)}")
        for t, rows in part.items():
            h = np.zeros(n)
            h[rows] = 1.0
            gam = mom.gamma(lambda X_: h)
            # within the stratum of t the predictor is constant 1 -> all its entries are 0; in the other
            # strata it is constant 0 -> 0 as well.  A merged stratum (two tuples) shows non-zero entries
            # whenever the sensitive groups are distributed differently over the two tuples.
            nz = {e: float(gam[e]) for e in plus if abs(float(gam[e])) > 1e-9}
            if nz:
                raise PropertyViolation(f"control tuple {t} is not a stratum of its own: indicator of its rows gives non-zero gamma {nz}")
    return _tags(part) + ["role:control"]


def check_threshold_optimizer(case):
    from fairlearn.postprocessing import ThresholdOptimizer

    table, y, scores = case["table"], case["y"], case["scores"]
    if case.get("tile"):
        # the same rows repeated up to >= 4 096 rows: long tables must be grouped like short ones, and short
        # prediction batches must find the rules learned from the long training table
        k = -(-4100 // len(table))
        table, y, scores = table * k, y * k, scores * k
        case = dict(case, perm=list(range(len(table)))[::-1], subset=case.get("subset", []))
    n = len(table)
    part = _tuples_partition(table)
    X = np.asarray(scores, dtype=float).reshape(n, 1)
    to = ThresholdOptimizer(estimator=ScoreColumn(), constraints=case["constraint"], prefit=True, predict_method="predict",
                            grid_size=case["grid_size"], flip=case["flip"])
    to.fit(X, np.asarray(y), sensitive_features=_wrap_table(case["kind"], table))
    keys = list(to.interpolated_thresholder_.interpolation_dict.keys())
    if len(keys) != len(part):
        raise PropertyViolation(f"ThresholdOptimizer: {len(keys)} rules for {len(part)} distinct tuples: keys {keys}, tuples {sorted(part)}")
    # prediction on the training rows, features given in another container and row order
    perm = case["perm"]
    Xq = X[perm]
    tq = [table[i] for i in perm]
    pm = to._pmf_predict(Xq, sensitive_features=_wrap_table(case["kind2"], tq))[:, 1]
    p = np.empty(n)
    p[perm] = pm
    if np.any(p < -1e-12) or np.any(p > 1 + 1e-12):
        raise PropertyViolation("pmf outside [0,1]")
    yv = np.asarray(y)
    stats = {}
    for t, rows in part.items():
        rows = np.asarray(rows)
        pos, neg = rows[yv[rows] == 1], rows[yv[rows] == 0]
        stats[t] = {"sel": p[rows].mean(), "tpr": p[pos].mean(), "fpr": p[neg].mean()}
        # same (tuple, score) -> same probability
        seen = {}
        for i in rows:
            s = scores[i]
            if s in seen and abs(seen[s] - p[i]) > 1e-12:
                raise PropertyViolation(f"rows of tuple {t} with the same score {s} get different probabilities {seen[s]} / {p[i]}")
            seen[s] = p[i]
    # the rule applied to a row must not depend on which other rows are in the batch: predict sub-batches
    # (rows sharing the value of one column - so that column is constant in the batch -, a drawn subset, single rows)
    batches = []
    ncol = len(table[0])
    for j in range(ncol):
        for v in sorted({r[j] for r in table}):
            rows = [i for i in range(n) if table[i][j] == v]
            if 0 < len(rows) < n:
                batches.append(rows)
    sub = sorted({i % n for i in case.get("subset", [])})
    if sub:
        batches.append(sub)
    batches.append([case["perm"][0]])
    for rows in batches:
        pb = to._pmf_predict(X[rows], sensitive_features=_wrap_table(case["kind2"], [table[i] for i in rows]))[:, 1]
        if np.abs(pb - p[rows]).max() > 1e-12:
            k = int(np.argmax(np.abs(pb - p[rows])))
            raise PropertyViolation(f"ThresholdOptimizer: row {rows[k]} (tuple {tuple(table[rows[k]])}) gets P(1)={pb[k]} when predicted in the batch of rows {rows} but {p[rows[k]]} in the full table: the rule applied depends on the rest of the batch")
    # tuples not seen at fit time equal no fit-time tuple, so they are all treated alike - in particular a tuple that
    # merely *extends* a seen tuple ('x' -> 'xz', 'x,', 'x\\') must not be given that tuple's rule
    seen = sorted(part)
    base = list(seen[case.get("pick", 0) % len(seen)])
    levels = sorted(set(scores))
    cands = [base[:-1] + [base[-1] + suf] for suf in ("z", ",", "\\", " ")] + [[c + "q" for c in base]]
    unseen = [u for u in cands if tuple(u) not in part]
    ref_u = ["\u00e9q"] * ncol
    if case["kind2"].endswith("_int"):
        # integer tables: unseen tuples are other integers (one more digit, other sign)
        cands = [base[:-1] + [base[-1] + "7"], [("-" + c).replace("--", "") for c in base], base[:-1] + [str(int(base[-1]) + 1000)]]
        unseen = [u for u in cands if tuple(u) not in part and _is_int_table([u])]
        ref_u = ["777"] * ncol
    if unseen and tuple(ref_u) not in part:
        Xu = np.asarray(levels, dtype=float).reshape(-1, 1)
        p_ref = to._pmf_predict(Xu, sensitive_features=_wrap_table(case["kind2"], [ref_u] * len(levels)))[:, 1]
        for u in unseen:
            p_u = to._pmf_predict(Xu, sensitive_features=_wrap_table(case["kind2"], [u] * len(levels)))[:, 1]
            if np.abs(p_u - p_ref).max() > 1e-12:
                raise PropertyViolation(f"ThresholdOptimizer: the unseen tuple {tuple(u)} (an extension of the fit-time tuple {tuple(base)}) is predicted {p_u.tolist()} while another unseen tuple gets {p_ref.tolist()}: it was matched to a fit-time group it does not equal")
    which = {"demographic_parity": ["sel"], "true_positive_rate_parity": ["tpr"], "false_positive_rate_parity": ["fpr"],
             "equalized_odds": ["tpr", "fpr"]}[case["constraint"]]
    for m in which:
        vals = [stats[t][m] for t in part]
        if max(vals) - min(vals) > 1e-9:
            raise PropertyViolation(f"ThresholdOptimizer({case['constraint']}): {m} differs between tuple groups at predict time: { {t: stats[t][m] for t in part} } - the rule applied to a tuple is not the rule learned for it")
    return _tags(part) + ["kind:" + case["kind"]] + (["long_table>=4096"] if case.get("tile") else [])


def check_reduction(case):
    import fairlearn.reductions as fr

    table, y = case["table"], case["y"]
    n = len(table)
    part = _tuples_partition(table)
    X = np.asarray(case["levels"], dtype=float).reshape(n, 1)
    sf = _wrap_table(case["kind"], table)
    mom = getattr(fr, case["moment"])(difference_bound=0.05)
    if case["estimator"] == "gs":
        est = fr.GridSearch(ExactTable(), mom, grid_size=4)
    else:
        est = fr.ExponentiatedGradient(ExactTable(), mom, max_iter=3, nu=1e-3, eps=0.05)
    est.fit(X, np.asarray(y), sensitive_features=sf)
    idx = est.constraints.index
    groups = {e[2] for e in idx.tolist()}
    if len(groups) != len(part):
        raise PropertyViolation(f"{case['estimator']}: {len(groups)} groups after fit for {len(part)} distinct tuples")
    # sizes: P(group) recoverable from gamma of the constant-1 predictor? (always 0) -> use indicator of one tuple
    if case["moment"] == "DemographicParity":
        t, rows = sorted(part.items())[case["pick"] % len(part)]
        h = np.zeros(n)
        h[rows] = 1.0
        gam = est.constraints.gamma(lambda X_: h)
        p = len(rows) / n
        vals = [float(gam[e]) for e in idx.tolist() if e[0] == "+"]
        if sum(abs(v - (1 - p)) < 1e-9 for v in vals) != 1 or sum(abs(v + p) < 1e-9 for v in vals) != len(vals) - 1:
            raise PropertyViolation(f"{case['estimator']}: rows of tuple {t} are not exactly one group: {vals}")
    return _tags(part) + ["estimator:" + case["estimator"]]


def check_metricframe(case):
    """MetricFrame's non-empty intersectional cells on the same columns are the same partition."""
    from fairlearn.metrics import MetricFrame, count

    import fairlearn.reductions as fr

    table = case["table"]
    n = len(table)
    part = _tuples_partition(table)
    ncol = len(table[0])
    df = pd.DataFrame([list(r) for r in table], columns=[f"c{j}" for j in range(ncol)])
    mf = MetricFrame(metrics=count, y_true=np.zeros(n), y_pred=np.zeros(n), sensitive_features=df)
    cells = {tuple(str(x) for x in (k if isinstance(k, tuple) else (k,))): int(v) for k, v in mf.by_group.items() if not pd.isna(v)}
    if {k: len(v) for k, v in part.items()} != cells:
        raise PropertyViolation(f"MetricFrame non-empty cells {cells} != tuple partition { {k: len(v) for k, v in part.items()} }")
    mom = fr.DemographicParity()
    mom.load_data(np.zeros((n, 1)), np.asarray(case["y"]), sensitive_features=_wrap_table(case["kind"], table))
    sizes = sorted((mom.prob_group_event * n).round().astype(int).tolist()) if hasattr(mom, "prob_group_event") else None
    groups = {e[2] for e in mom.index.tolist()}
    if len(groups) != len(cells):
        raise PropertyViolation(f"moment has {len(groups)} groups, MetricFrame {len(cells)} non-empty cells")
    return _tags(part)


# ---- exhaustive tuple tables ------------------------------------------------------------------------------------


def _cells(alphabet, max_len):
    out = [""]
    for L in range(1, max_len + 1):
        out += ["".join(t) for t in itertools.product(alphabet, repeat=L)]
    return out


def _n_groups(table, role, kind):
    import fairlearn.reductions as fr

    n = len(table)
    mom = fr.DemographicParity()
    X = np.zeros((n, 1))
    y = np.arange(n) % 2
    feat = _wrap_table(kind, table)
    if role == "control":
        mom.load_data(X, y, sensitive_features=np.asarray(["p"] * n), control_features=feat)
        return len({e[1] for e in mom.index.tolist()})
    mom.load_data(X, y, sensitive_features=feat)
    return len({e[2] for e in mom.index.tolist()})


def check_exhaustive(case):
    """One table holding *every* tuple over all cells of length <= max_len over the alphabet: the number of
    groups (strata) must equal the number of rows.  On failure the table is reduced to a minimal colliding set."""
    cells = _cells(case["alphabet"], case["max_len"])
    table = [list(t) for t in itertools.product(cells, repeat=case["ncol"])]
    role, kind = case["role"], case["kind"]
    if _n_groups(table, role, kind) != len(table):
        rows = table
        chunk = len(rows) // 2
        while chunk >= 1 and len(rows) > 2:
            reduced = False
            for start in range(0, len(rows), chunk):
                cand = rows[:start] + rows[start + chunk:]
                if len(cand) >= 2 and _n_groups(cand, role, kind) != len(cand):
                    rows, reduced = cand, True
                    break
            if not reduced:
                chunk //= 2
        raise PropertyViolation(f"distinct tuples fall into one group ({role} features, {kind}): {[tuple(r) for r in rows]}")
    return ["nt", "role:" + role, f"tuples:{len(table)}"]


def _enumerate_tables(tier):
    cfgs = [([",", "\\"], 3, 2), (["a", ",", "\\"], 2, 2), ([",", "\\"], 2, 3), (["1", ".", "0"], 2, 2)]
    if tier == "thorough":
        cfgs += [(["a", ",", "\\"], 3, 2), ([",", "\\"], 4, 2), (["a", ",", "\\"], 2, 3), ([",", "\\", " "], 3, 2)]
    for alphabet, max_len, ncol in cfgs:
        for role in ("sensitive", "control"):
            for kind in ("ndarray", "dataframe"):
                yield {"alphabet": alphabet, "max_len": max_len, "ncol": ncol, "role": role, "kind": kind}


# ---- strategies ---------------------------------------------------------------------------------------------------

_cell = st.one_of(st.sampled_from(CELLS), st.lists(st.sampled_from(CHARS), min_size=0, max_size=3).map("".join))


@st.composite
def _table(draw, min_per=1, max_per=3, max_tuples=5, both_labels=False):
    ncol = draw(st.sampled_from([2, 2, 3]))
    mode = draw(st.sampled_from(["free", "collide", "collide", "int_codes"]))
    k = draw(st.integers(2, max_tuples))
    tuples = []
    cell = st.sampled_from(["-1", "0", "1", "2", "-2", "10", "3", "-1", "0", "1"]) if mode == "int_codes" else _cell
    if mode == "collide" and ncol == 2:
        # pairs that an unescaped or half-escaped join confuses
        base = draw(st.sampled_from([
            [("a,b", "c"), ("a", "b,c")],
            [("a\\", "b,c"), ("a,b\\", "c")],
            [("\\", ","), (",\\", "")],
            [("a\\", "b,c"), ("a,b\\", "c"), ("a", "b,c")],
            [("a\\", "b"), ("a", "\\b")],
            [("a\\", ",b"), ("a", ",b"), ("a\\,", "b")],
            [("a,", ""), ("a", ","), ("", "a,")],
            [("\\", ","), ("\\,", ""), ("", "\\,")],
            [("1", "1.0"), ("1.0", "1"), ("01", "1")],
            [(",", ","), (",,", ""), ("", ",,")],
            [("None", "a"), ("None", "b"), ("a", "None")],
            [("Jos\u00e9", "a"), ("Jose\u0301", "a"), ("Jose", "a")],  # canonically equivalent, yet different strings
            [("a", "\u00c5"), ("a", "A\u030a"), ("a", "\u212b")],
            [("None", "None"), ("None", ""), ("nan", "None"), ("None", "nan")],
            [("a\\\\", "b"), ("a\\", "\\b"), ("a", "\\\\b")],
        ]))
        tuples = list(base)
    while len(tuples) < k:
        t = tuple(draw(cell) for _ in range(ncol))
        if t not in tuples:
            tuples.append(t)
        else:
            k -= 1
    if len(tuples) < 2:  # at least two groups by construction (a single group is outside the domain)
        tuples.append(tuple(c + "," for c in tuples[0]) if tuples else ("a",) * ncol)
        if len(tuples) < 2:
            tuples.append((",",) * ncol)
    rows, y = [], []
    for t in tuples:
        m = draw(st.integers(max(min_per, 2 if both_labels else 1), max_per))
        rows += [t] * m
        ys = [draw(st.integers(0, 1)) for _ in range(m)]
        if both_labels:
            ys[0], ys[1] = 0, 1
        y += ys
    n = len(rows)
    perm = draw(st.permutations(range(n)))
    return [list(rows[i]) for i in perm], [y[i] for i in perm]


KINDS = ["ndarray", "dataframe", "listoflists", "ndarray_str"]


@st.composite
def _moment_cases(draw):
    table, y = draw(_table())
    n = len(table)
    return {"table": table, "y": y, "kind": _none_kind(draw, table, _int_kind(draw, table, draw(st.sampled_from(KINDS + ["ndarray_mixed"])))),
            "moment": draw(st.sampled_from(["DemographicParity", "DemographicParity", "EqualizedOdds", "TruePositiveRateParity",
                                            "ErrorRateParity", "FalsePositiveRateParity"])),
            "role": draw(st.sampled_from(["sensitive", "sensitive", "control"])),
            "single": draw(st.lists(st.sampled_from(["p", "q"]), min_size=n, max_size=n))}


@st.composite
def _to_cases(draw):
    table, y = draw(_table(min_per=2, max_per=5, max_tuples=4, both_labels=True))
    n = len(table)
    return {"table": table, "y": y,
            "scores": draw(st.lists(st.sampled_from([0.1, 0.3, 0.5, 0.7, 0.9]), min_size=n, max_size=n)),
            "kind": _none_kind(draw, table, _int_kind(draw, table, draw(st.sampled_from(KINDS)))),
            "kind2": _none_kind(draw, table, _int_kind(draw, table, draw(st.sampled_from(KINDS)))),
            "constraint": draw(st.sampled_from(["demographic_parity", "equalized_odds", "true_positive_rate_parity",
                                                "false_positive_rate_parity"])),
            "grid_size": draw(st.sampled_from([10, 1000])), "flip": draw(st.booleans()),
            "perm": list(draw(st.permutations(range(n)))),
            "subset": draw(st.lists(st.integers(0, 40), min_size=0, max_size=5)),
            "tile": draw(st.integers(0, 11)) == 0, "pick": draw(st.integers(0, 10))}


@st.composite
def _red_cases(draw):
    table, y = draw(_table(min_per=2, max_per=4, max_tuples=3, both_labels=True))
    n = len(table)
    return {"table": table, "y": y, "levels": draw(st.lists(st.integers(0, 2), min_size=n, max_size=n)),
            "kind": _int_kind(draw, table, draw(st.sampled_from(KINDS))), "estimator": draw(st.sampled_from(["gs", "eg"])),
            "moment": draw(st.sampled_from(["DemographicParity", "EqualizedOdds"])), "pick": draw(st.integers(0, 10))}


@st.composite
def _mf_cases(draw):
    table, y = draw(_table())
    return {"table": table, "y": y, "kind": _int_kind(draw, table, draw(st.sampled_from(KINDS)))}


def _fuzz_shard(tier, seed, shard, n_shards, n_examples):
    """One atheris/libFuzzer campaign (coverage-guided, in-process target vf.fuzz.c13_target).

    Even shards start from an empty corpus, odd shards from two small valid tables.  The campaign is bounded
    by -runs (a case count), pinned by -seed; the oracle (partition equality) lives inside the target.
    """
    import json
    import os
    import shutil
    import subprocess
    import sys
    import tempfile

    from vf.runner import REPO_ROOT, VERIF_DIR

    work = tempfile.mkdtemp(prefix="vf_c13_fuzz_")
    try:
        corpus = os.path.join(work, "corpus")
        os.makedirs(corpus)
        if shard % 2 == 1:
            from vf.fuzz.c13_codec import SEED_TABLES, encode

            for i, tab in enumerate(SEED_TABLES):
                with open(os.path.join(corpus, f"seed{i}"), "wb") as f:
                    f.write(encode(tab))
        stats, fail = os.path.join(work, "stats.json"), os.path.join(work, "fail.json")
        env = dict(os.environ, VF_REPO_ROOT=REPO_ROOT)
        deps = os.path.join(VERIF_DIR, ".deps")
        env["PYTHONPATH"] = deps + os.pathsep + VERIF_DIR + os.pathsep + env.get("PYTHONPATH", "")
        cmd = [sys.executable, "-m", "vf.fuzz.c13_target", stats, fail, f"-runs={n_examples}", f"-seed={seed % (2**31 - 1) + 1}",
               "-max_len=96", "-len_control=0", "-print_final_stats=0", corpus]
        try:
            proc = subprocess.run(cmd, cwd=VERIF_DIR, env=env, capture_output=True, text=True, timeout=3000)
        except subprocess.TimeoutExpired:
            return {"harness": "atheris campaign timed out"}
        out = {"evals": 0, "nt": [], "tags": {}, "samples": []}
        if os.path.exists(stats):
            st_ = json.load(open(stats))
            out.update(evals=st_["execs"], nt=st_["nt"], tags=st_["tags"], samples=st_["samples"])
        if proc.returncode == 77 and os.path.exists(fail):
            f = json.load(open(fail))
            out["fail"] = (f["case"], "atheris: " + f["message"])
        elif proc.returncode != 0:
            if "No module named 'atheris'" in proc.stderr or "No module named atheris" in proc.stderr:
                out["tags"] = {"atheris_unavailable": 1}
                out["evals"] = 1
            else:
                out["harness"] = "atheris target failed:\n" + proc.stderr[-2000:]
        out["tags"]["corpus:" + ("seeded" if shard % 2 else "empty")] = out["evals"]
        return out
    finally:
        shutil.rmtree(work, ignore_errors=True)


SUBS = [
    Sub("moment_partition", check_moment, strategy=_moment_cases, quick=1500, thorough=50000, shards=16,
        floors={"nt": 0.392, "naive_join_collides": 0.048, "separator_only_escape_collides": 0.022, "role:control": 0.121}),
    Sub("threshold_optimizer", check_threshold_optimizer, strategy=_to_cases, quick=300, thorough=10000, shards=16,
        floors={"nt": 0.366, "naive_join_collides": 0.058}),
    Sub("reductions_fit", check_reduction, strategy=_red_cases, quick=60, thorough=1500, shards=16, shrink_quick=False,
        floors={"nt": 0.4}),
    Sub("metricframe_partition", check_metricframe, strategy=_mf_cases, quick=300, thorough=10000, shards=8,
        floors={"nt": 0.4}),
    Sub("exhaustive_tuple_tables", check_exhaustive, enumerate=_enumerate_tables, shards=16, exhaustive=True),
    # failing fuzz inputs are replayed through the moment_partition check (same case format)
    Sub("atheris_moment_partition", check_moment, custom=_fuzz_shard, quick=4000, thorough=160000, shards=8),
]
