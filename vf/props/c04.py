"""C04 - ThresholdOptimizer equalises the constrained metric on the training data.

Oracle: ``_pmf_predict`` on the training rows gives P(y_hat = 1) per row; the expected constrained
metric of every group is computed from the rows by first principles (vf.tocommon.metric) and the
spread max - min over the groups must be <= 1e-9.  Both FPR and TPR for equalized odds.
"""

from __future__ import annotations

from vf import tocommon as T
from vf.runner import PropertyViolation, Sub

PROPERTY = "C04"
LEVEL = "exploration"
RULE = (
    "Random: Hypothesis draws 2..5 groups of 2..8 rows, each group containing both labels, scores from "
    "one of eleven level sets ({0,1}, k/3, wide k/3, one-decimal, reals / reals in [0,1] rounded to 3 "
    "decimals, levels 1e-7 / 1e-6 apart, small integers, neighbouring floats base + 0..3 ulps, subnormals k * 5e-324; per group independent of the label, informative or "
    "anti-informative), a row permutation, one of the 7 constraint names (equalized_odds on ~1/3 of the cases) "
    "x an admissible objective x flip x grid_size in {1,2,3,7,10,50,1000} x prefit x predict_method in "
    "{predict, decision_function, auto} and containers (X ndarray/DataFrame, y and sensitive features "
    "list/ndarray/Series, group labels strings or ints). Exhaustive: every multiset of rows over "
    "2 groups x 2 labels x 3 score levels {0,0.5,1} of total size <= 4 (quick: 81 datasets, 3402 cases) "
    "/ <= 6 (thorough: 3753 datasets, 157626 cases) in which both groups contain both labels, x 7 "
    "constraints (objective accuracy_score) x flip x grid_size in {1,4,1000}. A case is non-trivial when "
    "some group has a positive and a negative row with the same score or the fitted rule of some group "
    "mixes two thresholdings (p0 > 0 and p1 > 0); distinct = distinct canonical JSON."
)
ASSUMPTIONS = [
    "scores reach the optimizer unchanged through the pass-through estimator vf.learners.ScoreColumn",
    "score levels down to neighbouring floating point numbers (modes 'adjacent': base + 0..3 ulps, 'subnormal': k * 5e-324) are "
    "generated since defect D24 was repaired; scores whose sum overflows (> 9e307) are outside this check",
    "absolute tolerance 1e-9 on the per-group expected metric, on probabilities in [0,1] and on pmf rows summing to 1",
    "coverage classes interior_segment / grid_at_vertex / p_ignore>0 / flip_used are read from the fitted "
    "interpolation_dict; they never enter the verdict",
]


def check(case):
    to, p = T.fit(case)
    groups = T.by_group(case)
    if case["constraint"] == "equalized_odds":
        names = ["false_positive_rate", "true_positive_rate"]
    else:
        names = [T.SIMPLE[case["constraint"]]]
    for name in names:
        vals = {}
        for g, (ys, _ss, idx) in groups.items():
            vals[T.sf_value(case, g)] = T.metric(name, ys, [p[i] for i in idx])
        spread = max(vals.values()) - min(vals.values())
        if not spread <= T.TOL:
            raise PropertyViolation(
                f"expected {name} on the training rows differs between groups by {spread!r}: {vals}; "
                f"constraint={case['constraint']} objective={case['objective']} flip={case['flip']} "
                f"grid_size={case['grid']}; P(yhat=1) per row = {p}"
            )
    tags = T.structure_tags(case, to)
    x_metric, y_metric = T.xy_metrics(case)
    if any(T.has_vertical(T.group_points(ys, ss, case["flip"], x_metric, y_metric)) for ys, ss, _ in groups.values()):
        tags.append("vertical_segment")
    if case["constraint"] == "equalized_odds":
        tags.append("equalized_odds")
    if len(groups) >= 3:
        tags.append("groups>=3")
    return tags


def check_large_tied(case):
    """One group of 20 000 - 30 000 rows whose scores take only a few distinct values (rounded probabilities, tree
    scores) beside smaller groups (or, in a quarter of the cases, 10-30 groups of 40-300 rows): the expected constrained metric is still equal across groups.  The data are a
    deterministic function of the drawn seed; the oracle is the first-principles rate per group (numpy)."""
    import numpy as np
    from fairlearn.postprocessing import ThresholdOptimizer

    from vf.learners import ScoreColumn

    rs = np.random.RandomState(case["seed"])
    scores, labels, groups = [], [], []
    for g, size in enumerate(case["sizes"]):
        levels = np.sort(rs.uniform(-1, 2, size=case["levels"]))
        lv = rs.randint(0, case["levels"], size=size)
        pr = (lv + 0.5) / case["levels"]  # labels correlate with the score level
        y = (rs.rand(size) < pr).astype(int)
        y[0], y[1] = 0, 1
        scores.append(levels[lv]); labels.append(y); groups.append(np.full(size, g))
    s, y, g = np.concatenate(scores), np.concatenate(labels), np.concatenate(groups)
    perm = rs.permutation(len(s))
    s, y, g = s[perm], y[perm], g[perm]
    to = ThresholdOptimizer(estimator=ScoreColumn(), constraints=case["constraint"], objective=case["objective"],
                            grid_size=case["grid"], flip=case["flip"], prefit=True, predict_method="predict")
    to.fit(s.reshape(-1, 1), y, sensitive_features=g)
    pmf = np.asarray(to._pmf_predict(s.reshape(-1, 1), sensitive_features=g), dtype=float)
    if pmf.min() < -T.TOL or pmf.max() > 1 + T.TOL or np.abs(pmf.sum(axis=1) - 1).max() > T.TOL:
        raise PropertyViolation(f"_pmf_predict is not a distribution per row: min {pmf.min()!r} max {pmf.max()!r}")
    p = pmf[:, 1]
    names = ["false_positive_rate", "true_positive_rate"] if case["constraint"] == "equalized_odds" else [T.SIMPLE[case["constraint"]]]
    for name in names:
        vals = {}
        for k in range(len(case["sizes"])):
            m = g == k
            if name == "selection_rate":
                vals[k] = float(p[m].mean())
            elif name == "true_positive_rate":
                vals[k] = float(p[m & (y == 1)].mean())
            elif name == "false_negative_rate":
                vals[k] = float(1 - p[m & (y == 1)].mean())
            elif name == "false_positive_rate":
                vals[k] = float(p[m & (y == 0)].mean())
            else:
                vals[k] = float(1 - p[m & (y == 0)].mean())
        spread = max(vals.values()) - min(vals.values())
        if not spread <= T.TOL:
            raise PropertyViolation(
                f"group sizes {case['sizes']} with {case['levels']} distinct score levels each: expected {name} on the training "
                f"rows differs between groups by {spread!r}: {vals}; constraint={case['constraint']} flip={case['flip']} grid_size={case['grid']}")
    tags = ["nt"]
    if max(case["sizes"]) >= 20000:
        tags.append("group>=20000_rows")
    if len(case["sizes"]) >= 10:
        tags.append("groups>=10")
    return tags


def check_eo_near_diagonal(case):
    """Equalized odds where every group's ROC hull passes within 1e-5 of the diagonal (but not on it) at the chosen
    false-positive rate: groups of 1 000 negatives (vertex at FPR 0.999) and 150 000 - 400 000 positives whose
    true-positive rate at that vertex is 0.999 + 1/P.  TPR and FPR of the fitted rule are still equal across groups."""
    import numpy as np
    from fairlearn.postprocessing import ThresholdOptimizer

    from vf.learners import ScoreColumn

    S, Y, G = [], [], []
    for k, P in enumerate(case["positives"]):
        lo_pos = P // 1000 - 1
        S.append(np.r_[np.ones(999), np.zeros(1), np.ones(P - lo_pos), np.zeros(lo_pos)])
        Y.append(np.r_[np.zeros(1000), np.ones(P)].astype(int))
        G.append(np.full(1000 + P, k))
    s, y, g = np.concatenate(S), np.concatenate(Y), np.concatenate(G)
    to = ThresholdOptimizer(estimator=ScoreColumn(), constraints="equalized_odds", objective=case["objective"], prefit=True,
                            predict_method="predict", grid_size=case["grid"], flip=case["flip"])
    to.fit(s.reshape(-1, 1), y, sensitive_features=g)
    p = np.asarray(to._pmf_predict(s.reshape(-1, 1), sensitive_features=g))[:, 1]
    tpr = [float(p[(g == k) & (y == 1)].mean()) for k in range(len(case["positives"]))]
    fpr = [float(p[(g == k) & (y == 0)].mean()) for k in range(len(case["positives"]))]
    for name, v in (("true_positive_rate", tpr), ("false_positive_rate", fpr)):
        if max(v) - min(v) > T.TOL:
            raise PropertyViolation(f"equalized odds, groups with {case['positives']} positives and 1000 negatives each: expected {name} differs "
                                    f"between groups by {max(v) - min(v)!r}: {v}")
    tags = ["nt"]
    if 0.99 < fpr[0] < 1.0:
        tags.append("chosen_fpr_next_to_corner")
    return tags


def _eo_near_diagonal_strategy():
    from hypothesis import strategies as st

    @st.composite
    def _s(draw):
        k = draw(st.integers(2, 3))
        return {"positives": [draw(st.sampled_from([150000, 200000, 250000, 400000])) for _ in range(k)],
                "objective": draw(st.sampled_from(["balanced_accuracy_score", "accuracy_score"])), "grid": draw(st.sampled_from([1000, 1000, 2000])),
                "flip": draw(st.booleans())}

    return _s()


def _large_tied_strategy():
    from hypothesis import strategies as st

    @st.composite
    def _s(draw):
        k = draw(st.integers(2, 3))
        sizes = [draw(st.sampled_from([20000, 24000, 30000, 32768, 20011]))] + [draw(st.sampled_from([300, 2000, 21000, 50, 1024])) for _ in range(k - 1)]
        if draw(st.integers(0, 3)) == 0:  # many groups instead of one huge group
            k = draw(st.integers(10, 30))
            sizes = [draw(st.sampled_from([40, 100, 300])) for _ in range(k)]
        constraint = draw(st.sampled_from(sorted(T.SIMPLE) + ["equalized_odds"]))
        objective = "accuracy_score" if constraint == "equalized_odds" else draw(st.sampled_from(["accuracy_score", "balanced_accuracy_score"]))
        return {"sizes": [sizes[i] for i in draw(st.permutations(range(k)))], "levels": draw(st.sampled_from([3, 7, 20, 100])),
                "seed": draw(st.integers(0, 2**31 - 1)), "constraint": constraint, "objective": objective,
                "grid": draw(st.sampled_from([10, 1000, 1000])), "flip": draw(st.booleans())}

    return _s()


def _strategy():
    return T.to_case()


def _enumerate(tier):
    return T.exhaustive_cases(4 if tier == "quick" else 6)


SUBS = [
    Sub("parity_random", check, strategy=_strategy, quick=2000, thorough=60000, shards=16,
        floors={"nt": 0.28, "tie_pos_neg": 0.2, "interior_segment": 0.057, "grid_at_vertex": 0.2,
                "vertical_segment": 0.05, "p_ignore>0": 0.03, "flip_used": 0.03, "equalized_odds": 0.05,
                "groups>=3": 0.2}),
    Sub("parity_large_tied_groups", check_large_tied, strategy=_large_tied_strategy, quick=32, thorough=400, shards=16,
        shrink_quick=False, floors={"group>=20000_rows": 0.281, "groups>=10": 0.08}),
    Sub("eo_near_diagonal", check_eo_near_diagonal, strategy=_eo_near_diagonal_strategy, quick=6, thorough=40, shards=6, shrink_quick=False),
    Sub("parity_exhaustive", check, enumerate=_enumerate, shards=16, exhaustive=True,
        floors={"nt": 0.26, "p_ignore>0": 0.01, "flip_used": 0.01, "vertical_segment": 0.01}),
]
