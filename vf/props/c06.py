"""C06 - constraint moments measure exactly the documented parity violations.

Oracle: first-principles means over the rows of the case (``vf.momcommon.ref_gamma``).  Index entries
are matched with the reference without reading event *names*: an index event label is an opaque
token; it is identified with the first-principles event (stratum x conditioned label class) whose
entries take the same values under the n+1 hard probe predictors h = 0, e_1..e_n.
"""

from __future__ import annotations

import numpy as np
import pandas as pd
from hypothesis import strategies as st

from vf import momcommon as MC
from vf.momcommon import need
from vf.runner import PropertyViolation, Sub

PROPERTY = "C06"
LEVEL = "exploration"
RULE = (
    "Hypothesis draws 2..4 groups (a fifth of the cases: up to 12 or 25 groups out of 30 labels; strings or ints), optionally 1..3 control strata, a set of active "
    "(stratum, group, label) cells (each kept with probability 0.6, or all cells in 'dense' cases) and "
    "n in [2,20] rows over them (every group and stratum occurs), a categorical feature column, one of the "
    "five parity moments, a bound (default / difference_bound >= 0 / ratio_bound in (0,1] with slack >= 0), "
    "a prediction vector (hard, soft in [0,1] or constant) and a container + pandas index plan for y, "
    "sensitive_features and control_features. Loss moments: real targets/predictions and "
    "Square/Absolute/ZeroOne loss; ErrorRate: drawn or default costs. Non-trivial: some event contains "
    ">= 2 groups and the prediction vector is not constant (loss/error sub-checks: >= 2 groups occur and "
    "predictions not constant). Distinct = distinct canonical JSON."
)
ASSUMPTIONS = [
    "labels are 0/1, group and stratum values of one column share one type (str or int)",
    "the three-level index (sign, event, group_id) documented for UtilityParity is used structurally; "
    "event labels are opaque tokens, group labels are compared by str()",
    "absolute tolerance 1e-9 on gamma values (means of <= 20 numbers in [0,1] scaled by r <= 1); bound() exact to 1e-12",
    "the MetricFrame cross-check trusts fairlearn.metrics (decided by C01/C14) and runs only where every "
    "(stratum, group) cell and every needed label class inside it is non-empty",
]

TOL = MC.TOL


def _nonconstant(h):
    return len(set(float(v) for v in h)) > 1


def check_parity(case):
    events = MC.ref_events(case)
    m = MC.load_parity(case)
    r = MC.ratio_of(case["bound"])
    h = case["h"]

    # (a) index structure: one '+' and one '-' entry per occurring (event, group), nothing else
    idx_entries = MC.split_index(m.index, "moment.index")
    entries, assigned = MC.match_events(case, m, events)
    need(sorted(entries) == sorted(idx_entries), f"gamma(h).index {entries} != moment.index {idx_entries}")

    # (b) values under the drawn predictor
    g = MC.as_series(m.gamma(MC.predictor(h, case.get("h_dtype"))), "gamma(h)")
    ents = MC.split_index(g.index, "gamma(h).index")
    need(ents == entries, "gamma(h).index changes with the predictor")
    ref = MC.ref_gamma(case, h, events)
    vals = np.asarray(g.to_numpy(), dtype=float)
    for pos, (sign, label, grp) in enumerate(entries):
        k = assigned[label]
        exp = ref[(k, grp, sign)]
        if not abs(vals[pos] - exp) <= TOL:
            ev = events[k]
            raise PropertyViolation(
                f"gamma[{sign},{label!r},{grp}] = {float(vals[pos])!r}; first principles "
                f"({'r*mean_eg - mean_e' if sign == '+' else 'r*mean_e - mean_eg'}, r={r}, event rows "
                f"{ev['rows']}, group rows {ev['groups'][grp]}) = {exp!r}"
            )

    # a predictor that hands out its stored prediction vector by reference: gamma must not modify the caller's
    # array, and evaluating the same predictor again gives the same answer
    stored = np.asarray(h, dtype=np.float64).copy()
    g_first = np.asarray(m.gamma(lambda X: stored).to_numpy(), dtype=float)
    need(bool(np.array_equal(stored, np.asarray(h, dtype=np.float64))),
         f"gamma modified the prediction array returned by the predictor: {stored.tolist()} (was {list(h)})")
    g_again = np.asarray(m.gamma(lambda X: stored).to_numpy(), dtype=float)
    need(bool(np.allclose(g_first, vals, rtol=0, atol=1e-12)) and bool(np.array_equal(g_first, g_again)),
         "gamma of the same prediction vector differs between calls")

    # (c) bound() = configured slack on every entry - also after a caller has edited an earlier result in place
    # (e.g. `b = m.bound(); b -= m.gamma(h)`)
    b_first = m.bound()
    try:
        b_first -= 5.0
    except Exception:  # noqa: BLE001 - a read-only result is fine too
        pass
    b = MC.as_series(m.bound(), "bound()")
    bents = MC.split_index(b.index, "bound().index")
    need(sorted(bents) == sorted(entries), f"bound().index {bents} != index {entries}")
    eps = MC.slack_of(case["bound"])
    bv = np.asarray(b.to_numpy(), dtype=float)
    need(bool(np.all(np.abs(bv - eps) <= 1e-12)), f"bound() = {b.tolist()}, configured slack {eps}")

    # (f) r = 1, hard predictions: '+' entries = MetricFrame by_group - overall of the matching rate
    tags = ["narrow_label_dtype"] if case.get("y_dtype") not in (None, "int", "float") else []
    if len(set(map(str, case["sf"]))) >= 8:
        tags.append("groups>=8")
    hard = all(v in (0.0, 1.0) for v in h)
    if r == 1.0 and hard and _mf_applicable(case):
        _mf_crosscheck(case, events, entries, assigned, vals)
        tags.append("mf_crosscheck")

    all_groups = set(str(v) for v in case["sf"])
    if any(len(ev["groups"]) >= 2 for ev in events) and _nonconstant(h):
        tags.append("nt")
    if case.get("cf") is not None:
        tags.append("control")
    if r < 1.0:
        tags.append("ratio<1")
    if any(set(ev["groups"]) != all_groups for ev in events):
        tags.append("missing_group")
    if not hard:
        tags.append("soft")
    if case.get("cf") is not None and any(ev["cls"] is not None for ev in events) and len(set(case["y"])) == 2:
        tags.append("control+label_event")
    if not events:
        tags.append("no_event")
    tags.append(case["moment"])
    tags.append("bound:" + case["bound"]["kind"])
    if case.get("preload"):
        tags.append("reloaded_moment")
    return tags


def _mf_applicable(case):
    n = case["n"]
    cf = case.get("cf")
    strata = sorted(set(map(str, cf))) if cf is not None else [None]
    groups = sorted(set(map(str, case["sf"])))
    for s in strata:
        for g in groups:
            rows = [i for i in range(n) if (cf is None or str(cf[i]) == s) and str(case["sf"][i]) == g]
            if not rows:
                return False
            for cls in MC.EVENT_CLASSES[case["moment"]]:
                if cls is not None and not any(case["y"][i] == cls for i in rows):
                    return False
    return True


def _mf_crosscheck(case, events, entries, assigned, vals):
    from sklearn.metrics import zero_one_loss

    from fairlearn.metrics import MetricFrame, false_positive_rate, selection_rate, true_positive_rate

    def rate_for(cls):
        if case["moment"] == "ErrorRateParity":
            return zero_one_loss
        if cls is None:
            return selection_rate
        return true_positive_rate if cls == 1 else false_positive_rate

    y = np.asarray(case["y"])
    hp = np.asarray(case["h"]).astype(int)
    cf = case.get("cf")
    cache = {}
    for pos, (sign, label, grp) in enumerate(entries):
        if sign != "+":
            continue
        ev = events[assigned[label]]
        cls = ev["cls"]
        if cls not in cache:
            kw = {"control_features": list(cf)} if cf is not None else {}
            cache[cls] = MetricFrame(
                metrics=rate_for(cls), y_true=y, y_pred=hp, sensitive_features=list(case["sf"]), **kw
            )
        mf = cache[cls]
        bg, ov = mf.by_group, mf.overall
        by = None
        for key, v in bg.items():
            key = key if isinstance(key, tuple) else (key,)
            want = (str(ev["stratum"]), grp) if cf is not None else (grp,)
            if tuple(str(x) for x in key) == want:
                by = float(v)
        if cf is not None:
            o = None
            for key, v in ov.items():
                if str(key) == str(ev["stratum"]):
                    o = float(v)
        else:
            o = float(ov)
        need(by is not None and o is not None, f"MetricFrame has no cell for stratum {ev['stratum']!r}, group {grp}")
        exp = by - o
        need(
            abs(vals[pos] - exp) <= TOL,
            f"gamma[+,{label!r},{grp}] = {float(vals[pos])!r} but MetricFrame by_group - overall of "
            f"{rate_for(cls).__name__} = {by!r} - {o!r} = {exp!r}",
        )


def check_parity_large(case):
    """Thousands of rows (sizes around multiples of 4096 included): gamma against numpy means computed from the rows."""
    import fairlearn.reductions as red

    rs = np.random.RandomState(case["seed"])
    n, G = case["n"], case["groups"]
    g = rs.randint(0, G, size=n)
    y = rs.randint(0, 2, size=n)
    y[:2], g[:2 * G] = [0, 1], np.repeat(np.arange(G), 2)[: 2 * G]
    h = rs.rand(n) if case["soft"] else rs.randint(0, 2, size=n).astype(float)
    # the last rows carry extreme values so that a dropped row shows
    h[-1] = 1.0
    y[-1] = case["last_label"]
    g[-1] = case["last_group"] % G
    r = case["ratio"]
    kw = {} if r is None else {"ratio_bound": r, "ratio_bound_slack": 0.0}
    m = getattr(red, case["moment"])(**kw)
    X = pd.DataFrame({"x": np.arange(n)}) if case["frame"] else np.arange(n).reshape(-1, 1)
    m.load_data(X, y, sensitive_features=g)
    gam = m.gamma(lambda X_: h)
    rr = 1.0 if r is None else r
    u = y + h * (1 - 2 * y) if case["moment"] == "ErrorRateParity" else h
    events = {"DemographicParity": [("all", np.ones(n, bool))], "ErrorRateParity": [("all", np.ones(n, bool))],
              "TruePositiveRateParity": [("label=1", y == 1)], "FalsePositiveRateParity": [("label=0", y == 0)],
              "EqualizedOdds": [("label=0", y == 0), ("label=1", y == 1)]}[case["moment"]]
    seen = 0
    for ev, em in events:
        for k in range(G):
            gm = em & (g == k)
            if not gm.any():
                continue
            a, b = float(u[gm].mean()), float(u[em].mean())
            for sign, e in (("+", rr * a - b), ("-", rr * b - a)):
                got = float(gam[(sign, ev, k)])
                need(abs(got - e) <= 1e-9, f"{case['moment']} (n={n}): gamma[{sign},{ev},{k}] = {got!r}, from the {int(gm.sum())} rows of the group and the {int(em.sum())} rows of the event: {e!r}")
                seen += 1
    need(seen == len(gam), f"gamma has {len(gam)} entries, {seen} (event, group) pairs occur")
    return ["nt", f"n={n}"] + (["n%4096==1"] if n % 4096 == 1 else [])


@st.composite
def _parity_large_cases(draw):
    return {"n": draw(st.sampled_from([4096, 4097, 5000, 8193, 12289, 20000, 4095, 16385, 300000])), "groups": draw(st.integers(2, 4)),
            "seed": draw(st.integers(0, 2**31 - 1)), "soft": draw(st.booleans()), "moment": draw(st.sampled_from(MC.MOMENTS)),
            "ratio": draw(st.sampled_from([None, None, 0.8, 0.5])), "frame": draw(st.booleans()),
            "last_label": draw(st.integers(0, 1)), "last_group": draw(st.integers(0, 3))}


# ---- (d) BoundedGroupLoss ----------------------------------------------------------------------------


def check_bgl(case):
    from fairlearn.reductions import BoundedGroupLoss

    X = MC.build_X(case)
    y = MC._wrap(case, "y", "lab")
    sf = MC._wrap(case, "sf", "grp")
    m = BoundedGroupLoss(MC.make_loss(case["loss"]), upper_bound=case["upper_bound"])
    MC.load_reloaded(m, case, warm=lambda mm: mm.gamma(MC.predictor(case["h"])), only_sf=True)
    g = MC.as_series(m.gamma(MC.predictor(case["h"], case.get("h_dtype"))), "BoundedGroupLoss.gamma(h)")
    if case.get("y_dtype") not in (None, "int", "float"):
        tags_extra = ["narrow_label_dtype"]
    else:
        tags_extra = []
    loss = MC.ref_loss(case["loss"], case["y"], case["h"])
    groups = MC.group_rows(case["sf"])
    keys = [str(k) for k in g.index.tolist()]
    need(len(set(keys)) == len(keys) and set(keys) == set(groups),
         f"gamma index {g.index.tolist()} != occurring groups {sorted(groups)}")
    need(sorted(str(k) for k in m.index.tolist()) == sorted(keys), f"moment.index {m.index.tolist()} != gamma index")
    vals = np.asarray(g.to_numpy(), dtype=float)
    for pos, k in enumerate(keys):
        exp = float(np.mean(loss[groups[k]]))
        need(abs(vals[pos] - exp) <= TOL * max(1.0, abs(exp)),
             f"gamma[{k}] = {float(vals[pos])!r}; mean clipped {case['loss']} loss over rows {groups[k]} = {exp!r}")
    b = MC.as_series(m.bound(), "bound()")
    need(sorted(str(k) for k in b.index.tolist()) == sorted(keys), f"bound().index {b.index.tolist()} != groups")
    need(bool(np.all(np.abs(np.asarray(b.to_numpy(), dtype=float) - case["upper_bound"]) <= 1e-12)),
         f"bound() = {b.tolist()}, upper_bound = {case['upper_bound']}")
    tags = list(tags_extra)
    if len(groups) >= 2 and _nonconstant(case["h"]):
        tags.append("nt")
    lo, hi = (0.0, 1.0) if case["loss"]["kind"] == "zero_one" else (case["loss"]["lo"], case["loss"]["hi"])
    if any(v < lo or v > hi for v in list(case["y"]) + list(case["h"])):
        tags.append("clipped")
    tags.append("loss:" + case["loss"]["kind"])
    return tags


# ---- (e) ErrorRate ------------------------------------------------------------------------------------


def check_error_rate(case):
    m = MC.load_reloaded(MC.make_error_rate(case["costs"]), case, warm=lambda mm: (mm.signed_weights(), mm.gamma(MC.predictor(case["h"]))))
    g = MC.as_series(m.gamma(MC.predictor(case["h"], case.get("h_dtype"))), "ErrorRate.gamma(h)")
    need(len(g) == 1, f"ErrorRate.gamma has {len(g)} entries, expected a single one: {g.to_dict()}")
    need(len(list(m.index)) == 1, f"ErrorRate.index = {list(m.index)}")
    got = float(g.iloc[0])
    exp = MC.ref_error(case["y"], case["h"], case["costs"])
    need(abs(got - exp) <= TOL * max(1.0, abs(exp)),
         f"ErrorRate(costs={case['costs']}).gamma = {got!r}; (fn*sum_[y=1](1-h) + fp*sum_[y=0]h)/n = {exp!r}")
    tags = ["narrow_label_dtype"] if case.get("y_dtype") not in (None, "int", "float") else []
    if len(set(map(str, case["sf"]))) >= 8:
        tags.append("groups>=8")
    if len(set(case["y"])) == 2 and _nonconstant(case["h"]):
        tags.append("nt")
    c = case["costs"]
    if c is not None and c["fp"] != c["fn"]:
        tags.append("asymmetric_costs")
    if c is None:
        tags.append("default_costs")
    if not all(v in (0.0, 1.0) for v in case["h"]):
        tags.append("soft")
    if case.get("cf") is not None:
        tags.append("control")
    return tags


SUBS = [
    Sub("parity_gamma", check_parity, strategy=lambda: MC.parity_case(), quick=1500, thorough=40000, shards=16,
        floors={"nt": 0.3, "control": 0.2, "ratio<1": 0.153, "missing_group": 0.15, "soft": 0.226,
                "control+label_event": 0.08, "mf_crosscheck": 0.01}),
    Sub("bgl_gamma", check_bgl, strategy=lambda: MC.loss_case(), quick=400, thorough=8000, shards=8,
        floors={"nt": 0.402, "clipped": 0.3}),
    Sub("error_rate_gamma", check_error_rate, strategy=lambda: MC.error_rate_case(), quick=400, thorough=8000,
        shards=8, floors={"nt": 0.282, "asymmetric_costs": 0.213, "soft": 0.174, "default_costs": 0.1}),
    Sub("parity_gamma_large", check_parity_large, strategy=_parity_large_cases, quick=48, thorough=800, shards=16, shrink_quick=False,
        floors={"n%4096==1": 0.2}),
]
