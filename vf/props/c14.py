"""C14 - base rate metrics are weighted confusion-matrix ratios for any binary encoding.

Oracle: first-principles weighted counts from the rows (no sklearn, no fairlearn).
Domain: vectors of length >= 1 over an encoding (two values A/B), pos_label None only where the docs
allow it ({0,1}, {-1,1}); optional positive weights; containers list / ndarray / Series.
"""

from __future__ import annotations

import itertools

import numpy as np
import pandas as pd
from hypothesis import strategies as st

from vf.runner import PropertyViolation, Sub

PROPERTY = "C14"
LEVEL = "exploration"
RULE = (
    "Hypothesis draws an encoding (two label values), label/prediction vectors of length 1..12 as "
    "indices into it, optional positive weights and a container type; the exhaustive sub-check "
    "enumerates every (y_true, y_pred) in {A,B}^n x {A,B}^n for n <= 3 (quick) / n <= 4 (thorough) "
    "over six encodings x {no weights, weights in {1,2}^n (n<=3)} x both pos_label choices. A case is "
    "non-trivial when both classes occur among y_true or y_pred and, if weights are present, they are "
    "not all equal; single-valued vectors are tracked separately as class 'single_valued'."
)
ASSUMPTIONS = [
    "sklearn.metrics.confusion_matrix is not trusted: the reference counts rows directly",
    "weights are strictly positive (the property's domain); non-integer float labels are outside "
    "sklearn's confusion-matrix domain and are not generated",
    "absolute tolerance 1e-12 on ratios of sums of <= 12 small numbers",
]

TOL = 1e-12

# (value of class A, value of class B, pos_label None allowed)
ENCODINGS = {
    "01": (0, 1, True),
    "m11": (-1, 1, True),
    "ints": (7, 3, False),
    "ints2": (2, 5, False),
    "str": ("a", "b", False),
    "numstr": ("0", "1", False),   # numeric-looking *strings* (with a string pos_label)
    "numstr2": ("1", "10", False),
    "bool": (False, True, True),
}


def _wrap(kind, values, dtype=None):
    if kind == "list":
        return list(values)
    if kind == "ndarray2d":
        return np.asarray(values).reshape(-1, 1)
    if kind == "dataframe":
        return pd.DataFrame({"w": list(values)}, index=np.arange(len(values)) + 3)
    if kind == "nested_list":
        return [[v] for v in values]
    if kind == "ndarray":
        arr = np.asarray(values)
        if dtype and arr.dtype.kind in "iub" and all(isinstance(v, (int, bool, np.integer)) for v in values):
            # the same numeric labels in a narrower / floating dtype (int8, float32, ...)
            if not (dtype == "uint8" and min(int(v) for v in values) < 0):
                arr = arr.astype(dtype)
        return arr
    if kind == "series":
        return pd.Series(values, index=np.arange(len(values))[::-1] + 5)
    raise ValueError(kind)


def _ref(yt, yp, w, pos):
    """First-principles weighted rates; yt/yp are boolean 'is positive' masks."""
    w = np.ones(len(yt)) if w is None else np.asarray(w, dtype=float)
    tp = w[yt & yp].sum()
    fn = w[yt & ~yp].sum()
    fp = w[~yt & yp].sum()
    tn = w[~yt & ~yp].sum()
    P, N = tp + fn, fp + tn
    return {
        "tpr": tp / P if P > 0 else 0.0,
        "fnr": fn / P if P > 0 else 0.0,
        "fpr": fp / N if N > 0 else 0.0,
        "tnr": tn / N if N > 0 else 0.0,
        "has_pos": P > 0,
        "has_neg": N > 0,
        "sel": w[yp].sum() / w.sum(),
    }


def _scalar(name, v):
    if np.ndim(v) != 0:
        raise PropertyViolation(f"{name} returned a non-scalar: {v!r}")
    f = float(v)
    return f


def check(case):
    from fairlearn.metrics import (
        count,
        false_negative_rate,
        false_positive_rate,
        selection_rate,
        true_negative_rate,
        true_positive_rate,
    )

    a, b, none_ok = ENCODINGS[case["enc"]]
    vals = [a, b]
    yt_idx = np.asarray(case["yt"])
    yp_idx = np.asarray(case["yp"])
    n = len(yt_idx)
    pos_idx = case["pos"]  # 0 -> A is positive, 1 -> B is positive
    use_none = bool(case.get("pos_none")) and none_ok and vals[pos_idx] == 1
    yt_v = [vals[i] for i in yt_idx]
    yp_v = [vals[i] for i in yp_idx]
    w = case.get("w")
    kind = case.get("kind", "list")
    Yt, Yp = _wrap(kind, yt_v, case.get("np_dtype")), _wrap(kind, yp_v, case.get("np_dtype2"))
    W = None if w is None else _wrap(case.get("wkind", kind), w)


    tags = []
    both = len(set(yt_idx.tolist()) | set(yp_idx.tolist())) == 2
    if both and (w is None or len(set(w)) > 1 or n == 1):
        tags.append("nt")
    if not both:
        tags.append("single_valued")
    if w is not None:
        tags.append("weighted")
    if n == 1:
        tags.append("n1")
    if kind == "ndarray" and (case.get("np_dtype") or case.get("np_dtype2")) and ENCODINGS[case["enc"]][0] not in ("a",):
        tags.append("narrow_or_float_dtype")

    funcs = {
        "tpr": true_positive_rate,
        "fnr": false_negative_rate,
        "fpr": false_positive_rate,
        "tnr": true_negative_rate,
    }
    got = {}
    for which in (pos_idx, 1 - pos_idx):
        if which != pos_idx and not both:
            # pos_label must occur among the y values when there is only one distinct value?
            # (no: fairlearn accepts an absent pos_label for single-valued vectors) - still check it
            pass
        pl = vals[which]
        ref = _ref(yt_idx == which, yp_idx == which, w, pl)
        res = {}
        for k, f in funcs.items():
            kwargs = {}
            if W is not None:
                kwargs["sample_weight"] = W
            if not (use_none and which == pos_idx):
                kwargs["pos_label"] = pl
            res[k] = _scalar(k, f(Yt, Yp, **kwargs))
            if not (-TOL <= res[k] <= 1 + TOL):
                raise PropertyViolation(f"{k} outside [0,1]: {res[k]}")
            if abs(res[k] - ref[k]) > TOL:
                raise PropertyViolation(
                    f"{k}(pos_label={pl!r}) = {res[k]!r}, first-principles value {ref[k]!r}"
                )
        s1 = res["tpr"] + res["fnr"]
        s2 = res["tnr"] + res["fpr"]
        if ref["has_pos"] and abs(s1 - 1) > TOL or (not ref["has_pos"]) and (res["tpr"] != 0 or res["fnr"] != 0):
            raise PropertyViolation(f"TPR+FNR rule broken: {res}, has_pos={ref['has_pos']}")
        if ref["has_neg"] and abs(s2 - 1) > TOL or (not ref["has_neg"]) and (res["tnr"] != 0 or res["fpr"] != 0):
            raise PropertyViolation(f"TNR+FPR rule broken: {res}, has_neg={ref['has_neg']}")
        # selection rate for this pos_label
        kwargs = {"pos_label": pl}
        if W is not None:
            kwargs["sample_weight"] = W
        sel = _scalar("selection_rate", selection_rate(Yt, Yp, **kwargs))
        if abs(sel - ref["sel"]) > TOL:
            raise PropertyViolation(f"selection_rate(pos_label={pl!r}) = {sel!r}, expected {ref['sel']!r}")
        got[which] = res
    # role exchange under pos_label switch (only meaningful when both labels could be named)
    r0, r1 = got[pos_idx], got[1 - pos_idx]
    for x, y in (("tpr", "tnr"), ("fpr", "fnr"), ("tnr", "tpr"), ("fnr", "fpr")):
        if abs(r0[x] - r1[y]) > TOL:
            raise PropertyViolation(f"pos_label switch does not exchange {x}<->{y}: {r0} vs {r1}")
    c = count(Yt, Yp)
    if np.ndim(c) != 0 or c != n:
        raise PropertyViolation(f"count = {c!r}, expected {n}")
    # rows, not entries: labels with several entries per row (one-hot / multi-output) still have n rows
    for k in (2, 3):
        c2 = count(np.zeros((n, k), dtype=int), Yp)
        if np.ndim(c2) != 0 or c2 != n:
            raise PropertyViolation(f"count of an ({n}, {k}) label table = {c2!r}, expected the number of rows {n}")
    return tags


def check_long_vectors(case):
    """selection_rate / mean_prediction / count on vectors whose length is around a multiple of 65536."""
    from fairlearn.metrics import count, mean_prediction, selection_rate

    rs = np.random.RandomState(case["seed"])
    n = case["n"]
    yp = rs.randint(0, 2, size=n)
    w = rs.randint(1, 4, size=n).astype(float) if case["weighted"] else None
    kw = {} if w is None else {"sample_weight": w}
    exp = float(yp.mean()) if w is None else float((w * yp).sum() / w.sum())
    for name, f in (("selection_rate", selection_rate), ("mean_prediction", mean_prediction)):
        got = f(yp, yp, **kw)
        if np.ndim(got) != 0 or abs(float(got) - exp) > 1e-12:
            raise PropertyViolation(f"{name} on {n} rows = {got!r}, weighted fraction from the rows = {exp!r}")
    if count(yp, yp) != n:
        raise PropertyViolation(f"count on {n} rows = {count(yp, yp)!r}")
    return ["nt"] + (["n%65536==0"] if n % 65536 == 0 else [])


@st.composite
def _long_vector_cases(draw):
    return {"n": draw(st.sampled_from([65536, 131072, 196608, 131073, 65537, 200000, 262144, 1048576])), "seed": draw(st.integers(0, 2**31 - 1)),
            "weighted": draw(st.booleans())}


def check_mean_prediction(case):
    from fairlearn.metrics import mean_prediction, selection_rate

    yp = case["yp"]
    if case.get("yp_type") == "int":      # integer- / bool-typed predictions with real weights
        yp = [int(v) for v in yp]
    elif case.get("yp_type") == "bool":
        yp = [bool(int(v) % 2) for v in yp]
    n = len(yp)
    w = case.get("w")
    kind = case.get("kind", "list")
    Yp = _wrap(kind, yp)
    Yt = _wrap(kind, [0] * n)
    kwargs = {}
    if w is not None:
        kwargs["sample_weight"] = _wrap(case.get("wkind", kind), w)
    got = _scalar("mean_prediction", mean_prediction(Yt, Yp, **kwargs))
    ww = np.ones(n) if w is None else np.asarray(w, float)
    exp = float(np.sum(np.asarray(yp, float) * ww) / ww.sum())
    if abs(got - exp) > 1e-9 * max(1.0, abs(exp)):
        raise PropertyViolation(f"mean_prediction = {got!r}, expected {exp!r}")
    # selection rate with default pos_label=1 on the same real-valued predictions
    sel = _scalar("selection_rate", selection_rate(Yt, Yp, **kwargs))
    exp_sel = float(ww[np.asarray(yp) == 1].sum() / ww.sum())
    if abs(sel - exp_sel) > TOL:
        raise PropertyViolation(f"selection_rate = {sel!r}, expected {exp_sel!r}")
    tags = []
    if len(set(yp)) > 1 and (w is None or len(set(w)) > 1):
        tags.append("nt")
    if w is not None:
        tags.append("weighted")
        if case.get("yp_type") in ("int", "bool") and any(float(x) != int(x) for x in w):
            tags.append("int_predictions_real_weights")
        if case.get("wkind") in ("ndarray2d", "dataframe", "nested_list") and n >= 2:
            tags.append("column_shaped_weights")
    if n == 1:
        tags.append("n1")
    return tags


# ---- strategies --------------------------------------------------------------------------------

_weights = st.one_of(
    st.sampled_from([1e-10, 3e-10, 2.5e-9]),
    st.sampled_from([1e19, 3e20, 2.5e25]),  # float weights beyond the int64 range
    st.integers(1, 4).map(float),
    st.sampled_from([0.25, 0.5, 1.5, 2.0, 3.0, 10.0]),
    st.floats(0.01, 100, allow_nan=False),
)


@st.composite
def _cases(draw):
    n = draw(st.one_of(st.integers(1, 3), st.integers(1, 12)))
    mode = draw(st.sampled_from(["free", "free", "const_true", "const_pred", "const_both"]))
    bits = st.lists(st.integers(0, 1), min_size=n, max_size=n)
    yt = draw(bits)
    yp = draw(bits)
    if mode in ("const_true", "const_both"):
        yt = [yt[0]] * n
    if mode in ("const_pred", "const_both"):
        yp = [yp[0] if mode == "const_pred" else yt[0]] * n
    case = {
        "enc": draw(st.sampled_from(sorted(ENCODINGS))),
        "yt": yt,
        "yp": yp,
        "pos": draw(st.integers(0, 1)),
        "pos_none": draw(st.booleans()),
        "kind": draw(st.sampled_from(["list", "ndarray", "series"])),
        "w": draw(st.one_of(st.none(), st.lists(_weights, min_size=n, max_size=n))),
    }
    case["wkind"] = draw(st.sampled_from(["list", "ndarray", "series"]))
    case["np_dtype"] = draw(st.sampled_from([None, None, "int8", "uint8", "float32", "float64", "int32"]))
    case["np_dtype2"] = draw(st.sampled_from([None, None, "int8", "uint8", "float32", "float64", "int32"]))
    return case


@st.composite
def _mp_cases(draw):
    n = draw(st.one_of(st.integers(1, 3), st.integers(1, 12)))
    vals = st.one_of(
        st.integers(-3, 3).map(float), st.sampled_from([0.0, 1.0, 0.5, -1.5]), st.floats(-1e3, 1e3)
    )
    return {
        "yp": draw(st.lists(vals, min_size=n, max_size=n)),
        "w": draw(st.one_of(st.none(), st.lists(_weights, min_size=n, max_size=n))),
        "kind": draw(st.sampled_from(["list", "ndarray", "series"])),
        "wkind": draw(st.sampled_from(["list", "ndarray", "series", "ndarray2d", "dataframe", "nested_list"])),
        "yp_type": draw(st.sampled_from(["float", "float", "int", "bool"])),
    }


def _enumerate(tier):
    nmax = 3 if tier == "quick" else 4
    for n in range(1, nmax + 1):
        vecs = list(itertools.product((0, 1), repeat=n))
        wsets = [None]
        if n <= 3:
            wsets += [list(map(float, w)) for w in itertools.product((1, 2), repeat=n) if len(set(w)) > 1 or n == 1]
        for enc in sorted(ENCODINGS):
            for yt in vecs:
                for yp in vecs:
                    for w in wsets:
                        for pos_none in (False, True):
                            if pos_none and not ENCODINGS[enc][2]:
                                continue
                            yield {
                                "enc": enc,
                                "yt": list(yt),
                                "yp": list(yp),
                                "pos": 1,
                                "pos_none": pos_none,
                                "kind": "ndarray" if (sum(yt) + n) % 2 else "list",
                                "wkind": "list",
                                "w": w,
                            }


SUBS = [
    Sub("rates_random", check, strategy=_cases, quick=2000, thorough=50000, shards=8,
        floors={"nt": 0.261, "single_valued": 0.05, "weighted": 0.2, "n1": 0.02}),
    Sub("rates_exhaustive", check, enumerate=_enumerate, shards=16, exhaustive=True),
    Sub("mean_prediction", check_mean_prediction, strategy=_mp_cases, quick=600, thorough=10000, shards=4,
        floors={"nt": 0.2, "weighted": 0.191, "int_predictions_real_weights": 0.05, "column_shaped_weights": 0.051}),
    Sub("long_vectors", check_long_vectors, strategy=_long_vector_cases, quick=16, thorough=200, shards=8, shrink_quick=False,
        floors={"n%65536==0": 0.3}),
]
