"""C08 - ExponentiatedGradient meets the saddle-point guarantees certified by best_gap_.

Setting.  H = all functions of one categorical feature (<= 32 classifiers, enumerated); the base
learner ``ExactTable`` returns an exact minimiser of the weighted 0/1 error over H, so the reduction's
best response is exact.  Q = distribution ``weights_`` over ``predictors_``; err(Q), gamma(Q) are
recomputed from the predictors' own predictions on the training X with plain numpy (linearity in Q).
Lambda = {lam >= 0, ||lam||_1 <= B}, B = 1/eps, c = bound vector, L(Q, lam) = err(Q) + lam.(gamma(Q) - c).

Certificate (c).  For a recorded multiplier lam^ in Lambda the true duality gap of (Q, lam^) is

    gap(Q, lam^) = max( L(Q, lam^) - min_{h in H} L(h, lam^),   max_{lam in Lambda} L(Q, lam) - L(Q, lam^) )

where max_{lam in Lambda} L(Q, lam) = err(Q) + B * max(0, max_j(gamma_j(Q) - c_j)) (a linear function
on the scaled simplex is maximised at 0 or at B e_j) and the minimum over distributions is attained
at a single h (linearity).  best_gap_ = g must satisfy g >= gap(Q, lam^) for the multiplier recorded for
the returned iteration.  The estimator records two candidates for iteration best_iter_ - the running
average of ``lambda_vecs_EG_`` up to best_iter_ and the LP dual ``lambda_vecs_LP_[best_iter_]`` - and
not which of them produced the returned Q, so the check is existential over the two.  For difference
bounds gamma('-',e,g) = -gamma('+',e,g), the pair (lam+, lam-) acts on every classifier only through
lam+ - lam-, and the implementation evaluates the Lagrangian at the *projected* multiplier
(max(lam+ - lam-, 0), max(lam- - lam+, 0)), which again lies in Lambda (its norm is not larger): the
projected vector is the multiplier the certificate is about.  For ratio bounds no projection applies.

Consequences (a), (b).  Let g >= gap(Q, lam^), lam^ in Lambda, and Q* any distribution over H with
gamma(Q*) <= c (one exists: constant classifiers, or the fair coin for error-rate parity).  Then
    max_lam L(Q, lam) <= L(Q, lam^) + g <= L(Q*, lam^) + 2g <= err(Q*) + 2g          (lam^ >= 0, gamma(Q*) <= c)
 (a) err(Q) = L(Q, 0) <= max_lam L(Q, lam) <= OPT + 2g;
 (b) if v = max_j(gamma_j(Q) - c_j) > 0:  err(Q) + B v <= OPT + 2g, so  v <= (OPT - err(Q) + 2g)/B <= (1 + 2g)/B.
OPT is the reference LP over distributions on the enumerated H (``redcommon.ref_lp``; an exactly
feasible upper value is used in (a), and the run is skipped in the unseen event that the solver's
certified lower and upper values differ by more than 1e-7).

(d) fit leaves the loop before iteration max_iter - 1 only through the convergence test, so
last_iter_ < max_iter - 1  implies  best_gap_ < nu  (nu is always passed explicitly; nu=None is C19/D9).

Only public attributes are read: weights_, predictors_, best_gap_, best_iter_, last_iter_,
lambda_vecs_EG_, lambda_vecs_LP_.
"""

from __future__ import annotations

import numpy as np
import pandas as pd
from hypothesis import strategies as st

from vf import redcommon as R
from vf.learners import ExactTable, ExactTableW
from vf.runner import PropertyViolation, Skip, Sub

PROPERTY = "C08"
LEVEL = "exploration"
RULE = (
    "Hypothesis draws n in [6,24] rows (level of one categorical feature with 2..5 levels, group out of "
    "2..3, binary label; every group occurs by construction, a third of the datasets concentrate each "
    "group on a preferred level/label so disparities are large), one of the five parity moments with "
    "default / difference / ratio(+slack) bound, eps in {0.0002..0.2} (B = 1/eps from 5 to 5000), max_iter in {1,2,5,10,30}, explicit "
    "nu in {1e-6,1e-3,0.05}, eta0 in {0.5,2,8}, run_linprog_step, containers for X / y / sensitive "
    "features. A case is non-trivial when the constraints bind (every error-minimising table of H is "
    "infeasible: certified lower bound of the constrained optimum > unconstrained minimum error) and at "
    "least two predictors carry positive weight. Distinct = distinct canonical JSON."
)
ASSUMPTIONS = [
    "ExactTable is an exact weighted 0/1-error minimiser over H (checked by its own construction: weighted majority per level)",
    "scipy.optimize.linprog(method='highs') for the reference optimum; its value enters only through bounds "
    "re-certified by direct evaluation (feasible upper value, Lagrangian lower value)",
    "tolerance 1e-6 on (a), (b), (c) (the implementation accepts a new best response only if it improves by 1e-8)",
    "event names 'all', 'label=0', 'label=1' of the multiplier index as documented for the moments",
    "fits that raise ValueError 'sample_weight ... NaN' (all signed weights cancel) produce no classifier and are skipped (counted)",
]

TOL = 1e-6
SKIP_NAN = "fit raised: sample_weight contains NaN (all signed weights cancel)"


def _fit(case):
    from fairlearn.reductions import ExponentiatedGradient

    X = R.build_X(case)
    y = R.build_vector(case, case["y_kind"], case["y"])
    sf = R.build_vector(case, case["sf_kind"], R.group_labels(case))
    swn = bool(case.get("swn"))
    extra = {}
    if case.get("costs"):
        # user-supplied objective: cost-weighted error (costs <= 1 keep the objective in [0,1], as the bound
        # (1 + 2g)/B presupposes)
        from fairlearn.reductions import ErrorRate

        extra["objective"] = ErrorRate(costs=dict(case["costs"]))
    eg = ExponentiatedGradient(
        (ExactTableW if swn else ExactTable)(tie=case.get("tie", 0)),
        R.build_moment(case),
        **({"sample_weight_name": "w"} if swn else {}),
        **extra,
        eps=case["eps"],
        max_iter=case["max_iter"],
        nu=case["nu"],
        eta0=case["eta0"],
        run_linprog_step=case["lp"],
    )
    try:
        eg.fit(X, y, sensitive_features=sf)
    except ValueError as e:
        if "sample_weight" in str(e) and "NaN" in str(e):
            raise Skip(SKIP_NAN) from None
        raise
    return eg, X


def _scalar(name, v):
    if np.ndim(v) != 0:
        raise PropertyViolation(f"{name} is not a scalar: {v!r}")
    f = float(v)
    if not np.isfinite(f):
        raise PropertyViolation(f"{name} is not finite: {v!r}")
    return f


def true_gap(P, errs_H, gams_H, err_q, gam_q, lam, B):
    """True duality gap of (Q, lam) over the enumerated class (lam already in Lambda)."""
    c = P.bound
    L = err_q + float(lam @ (gam_q - c))
    L_low = float(np.min(errs_H + (gams_H - c) @ lam))
    L_high = err_q + B * max(0.0, float(np.max(gam_q - c)))
    return max(L - L_low, L_high - L), (L, L_low, L_high)


def _tuned(case):
    """With case['tune_bound'] = delta: a difference bound placed delta (1e-7 / 3e-8) below the largest constraint value
    of an unconstrained error minimiser of the class, so that the constrained optimum mixes that classifier with weight
    1 - t and others with a total weight t of the order of delta - tiny but positive probabilities."""
    delta = case.get("tune_bound")
    if not delta or case["bound"]["kind"] == "ratio":
        return case
    P0 = R.Problem(dict(case, bound={"kind": "diff", "value": 0.0}))
    _, errs, gams = P0.hypothesis_class()
    cands = np.nonzero(errs <= errs.min() + 1e-12)[0]
    d = min(float(np.max(gams[i])) for i in cands)  # gamma entries against a zero bound: r*mean - mean with r = 1
    if d <= 10 * delta:
        return case
    return dict(case, bound={"kind": "diff", "value": d - delta}, lp=True)


def check(case):
    case = _tuned(case)
    eg, X = _fit(case)
    P = R.Problem(case)
    B = 1.0 / case["eps"]
    max_iter, nu = case["max_iter"], case["nu"]

    # ---- weights_ / predictors_ : a probability vector aligned by label ------------------------------
    w, preds = eg.weights_, eg.predictors_
    if not isinstance(w, pd.Series) or not isinstance(preds, pd.Series):
        raise PropertyViolation(f"weights_/predictors_ are {type(w).__name__}/{type(preds).__name__}, expected Series")
    if w.index.has_duplicates or preds.index.has_duplicates or set(w.index) != set(preds.index):
        raise PropertyViolation(f"weights_ index {w.index.tolist()} does not label predictors_ {preds.index.tolist()}")
    labels = preds.index.tolist()
    wv = np.asarray([float(w.loc[k]) for k in labels])
    # the LP step returns HiGHS' solution as it is: bounds and the sum-to-one row hold to the solver's feasibility tolerance
    # (1e-7), e.g. weights [1.00000009, -9e-8] for a bound tuned to within 1e-7 of a vertex; 1e-6 on both
    if not np.all(np.isfinite(wv)) or wv.min() < -1e-6 or abs(wv.sum() - 1.0) > 1e-6:
        raise PropertyViolation(f"weights_ is not a probability vector: {wv.tolist()} (sum {wv.sum()!r})")
    # the randomised classifier that is actually served (_pmf_predict) is this Q: label-aligned mixture
    pm = np.asarray(eg._pmf_predict(X), dtype=float)
    mix = np.zeros(len(pm))
    for k, wk in zip(labels, wv):
        if wk != 0:
            mix += wk * np.asarray(preds.loc[k].predict(X), dtype=float)
    if pm.shape != (len(mix), 2) or np.abs(pm[:, 1] - mix).max() > 1e-9 or np.abs(pm.sum(axis=1) - 1).max() > 1e-9:
        raise PropertyViolation(
            f"_pmf_predict is not the weights_-weighted mixture of predictors_: P(1) = {pm[:, 1].tolist() if pm.ndim == 2 else pm.tolist()}, mixture = {mix.tolist()}, weights_ = {w.to_dict()}"
        )

    g = _scalar("best_gap_", eg.best_gap_)
    last_iter = int(_scalar("last_iter_", eg.last_iter_))
    best_iter = int(_scalar("best_iter_", eg.best_iter_))
    if not (0 <= best_iter <= last_iter <= max_iter - 1):
        raise PropertyViolation(f"best_iter_={best_iter}, last_iter_={last_iter}, max_iter={max_iter}")

    # ---- err(Q), gamma(Q) from the predictors' own predictions ---------------------------------------------
    errs = np.asarray([P.error(preds.loc[k].predict(X)) for k in labels])
    gams = np.asarray([P.gamma(preds.loc[k].predict(X)) for k in labels])
    err_q = float(wv @ errs)
    gam_q = wv @ gams

    ref = R.ref_lp(P)
    if not R.lp_certified(ref):
        raise Skip("reference LP not certified to 1e-7")
    opt = ref["upper"]
    _, errs_H, gams_H = P.hypothesis_class()

    # ---- (a) error within 2g of the constrained optimum ---------------------------------------------------
    if err_q > opt + 2 * g + TOL:
        raise PropertyViolation(
            f"(a) err(Q)={err_q!r} > OPT + 2*best_gap_ = {opt!r} + 2*{g!r} (excess {err_q - opt - 2 * g:.3e})"
        )
    # ---- (b) constraint violation at most (1+2g)/B ----------------------------------------------------------
    viol = float(np.max(gam_q - P.bound))
    if viol > (1 + 2 * g) / B + TOL:
        raise PropertyViolation(
            f"(b) max_j(gamma_j(Q) - bound) = {viol!r} > (1 + 2*best_gap_)/B = {(1 + 2 * g) / B!r} (g={g!r}, B={B})"
        )

    # ---- (c) best_gap_ certifies the duality gap against a recorded multiplier -------------------------------
    lam_eg_df, lam_lp_df = eg.lambda_vecs_EG_, eg.lambda_vecs_LP_
    if not isinstance(lam_eg_df, pd.DataFrame) or lam_eg_df.shape[1] != last_iter + 1:
        raise PropertyViolation(
            f"lambda_vecs_EG_ has shape {getattr(lam_eg_df, 'shape', None)}, expected one column per iteration 0..{last_iter}"
        )
    cands = [("EG average", lam_eg_df.iloc[:, : best_iter + 1].mean(axis=1))]
    if isinstance(lam_lp_df, pd.DataFrame) and best_iter in list(lam_lp_df.columns):
        cands.append(("LP dual", lam_lp_df[best_iter]))
    details = []
    best = np.inf
    for name, ser in cands:
        lam = P.align(ser, f"multiplier ({name})")
        lam = P.project(lam)
        if lam.min() < -1e-7 or lam.sum() > B * (1 + 1e-6) + 1e-7:
            details.append(f"{name}: not in Lambda (min {lam.min():.3e}, norm {lam.sum()!r}, B {B})")
            continue
        lam = np.maximum(lam, 0.0)
        tg, parts = true_gap(P, errs_H, gams_H, err_q, gam_q, lam, B)
        details.append(f"{name}: true gap {tg!r} (L, L_low, L_high = {parts})")
        best = min(best, tg)
    if not (g + TOL >= best):
        raise PropertyViolation(
            f"(c) best_gap_={g!r} is smaller than the true duality gap of the returned Q against every multiplier "
            f"recorded for iteration {best_iter}: " + "; ".join(details)
        )

    # ---- (d) early stop only below nu ----------------------------------------------------------------------
    early = last_iter < max_iter - 1
    if early and not (g < nu):
        raise PropertyViolation(f"(d) stopped at iteration {last_iter} < max_iter-1={max_iter - 1} with best_gap_={g!r} >= nu={nu!r}")

    # ---- classes -------------------------------------------------------------------------------------------
    tags = ["completed", "m:" + case["moment"], "bound:" + case["bound"]["kind"]]
    binds = ref["lower"] > ref["min_err"] + 1e-9
    support = int(np.sum(wv > 1e-9))
    if binds and support >= 2:
        tags.append("nt")
    if binds:
        tags.append("constraints_bind")
    if support >= 2:
        tags.append("support>=2")
    tags.append("lp_on" if case["lp"] else "lp_off")
    if case["bound"]["kind"] == "ratio" and case["bound"]["ratio"] < 1:
        tags.append("ratio<1")
    if early:
        tags.append("early_stop")
    if len(cands) == 2:
        tags.append("lp_multiplier_recorded")
    if g > nu:
        tags.append("gap>nu")
    if err_q > opt + g:
        tags.append("a_beyond_1g")
    if viol > 1e-9:
        tags.append("violates_bound")
    if R.has_missing_pair(case):
        tags.append("missing_pair")
    if len(P.group_values) == 3:
        tags.append("groups3")
    if case["eps"] < 1e-3:
        tags.append("B>1000")
    wv = np.asarray(eg.weights_, dtype=float)
    if ((wv > 0) & (wv < 1e-5)).any():
        tags.append("tiny_positive_weight")
    return tags


@st.composite
def _cases(draw):
    case = draw(R.reduction_data(min_groups=2, max_groups=3, pairs="free"))
    case["eps"] = draw(st.sampled_from([0.01, 0.02, 0.05, 0.1, 0.2, 0.001, 0.0005, 0.0002]))
    case["max_iter"] = draw(st.sampled_from([1, 2, 5, 5, 10, 10, 30, 30]))
    case["nu"] = draw(st.sampled_from([1e-6, 1e-3, 0.05, 0.0]))
    case["eta0"] = draw(st.sampled_from([0.5, 2.0, 8.0]))
    case["lp"] = draw(st.booleans())
    case["costs"] = draw(st.sampled_from([None, None, None, {"fp": 0.5, "fn": 1.0}, {"fp": 1.0, "fn": 0.25}, {"fp": 1.0, "fn": 1.0}]))
    case["tune_bound"] = draw(st.sampled_from([None, None, None, 1e-7, 3e-8]))
    if not case["lp"] and draw(st.integers(0, 3)) == 0:
        case["max_iter"] = draw(st.sampled_from([70, 100, 140]))  # long runs of the plain exponentiated-gradient iteration
        case["nu"] = 0.0
    return case


SUBS = [
    Sub(
        "saddle_point", check, strategy=_cases, quick=320, thorough=6000, shards=16, shrink_quick=False,
        max_skip_frac=0.2,
        floors={
            "completed": 0.444, "nt": 0.107, "lp_on": 0.169, "lp_off": 0.19, "ratio<1": 0.079, "early_stop": 0.075,
            "m:DemographicParity": 0.069, "m:TruePositiveRateParity": 0.079, "m:FalsePositiveRateParity": 0.08,
            "m:EqualizedOdds": 0.053, "m:ErrorRateParity": 0.069, "bound:default": 0.142, "bound:diff": 0.142,
            "groups3": 0.2,
        },
    ),
]
