"""C02 - MetricFrame aggregates are the documented functions of by_group and overall.

Oracle: per control cell, the list of first-principles metric values of the non-empty sensitive cells
(boolean masks, metric called on the sliced rows) and the first-principles overall value; min / max /
difference / ratio are then plain Python/IEEE arithmetic on those numbers.
"""

from __future__ import annotations

import math

import numpy as np
import pandas as pd
from hypothesis import strategies as st

from vf import mfcommon as M
from vf.runner import PropertyViolation, Sub

PROPERTY = "C02"
LEVEL = "exploration"
RULE = (
    "Datasets as in C01 (cell-by-cell grouping tables, 1..3 sensitive and 0..2 control columns, all "
    "containers) with scalar numeric metrics from three families: selection rate / accuracy on often "
    "all-zero predictions (zero denominators, all-equal groups), sample-weighted means, and real-valued "
    "(also negative) mean prediction and additive metrics; every aggregate is read for method in "
    "{between_groups,to_overall} x errors in {raise,coerce}. Non-trivial: some control cell has >= 2 "
    "non-empty sensitive cells with unequal metric values."
)
ASSUMPTIONS = [
    "IEEE division semantics for ratios: 0/0 -> NaN, x/0 -> +-inf",
    "for r = group/overall outside (0, inf) (negative or non-finite, only reachable with metrics taking "
    "negative values) the statement's min(r, 1/r) and the documented 'fold to below 1' differ; there only "
    "ratio <= 1 and membership in {r, 1/r of some group} are asserted",
    "ratio <= 1 is asserted where the largest group value is positive (min/max of all-negative values "
    "exceeds 1 by arithmetic, which the documented definition min/max implies)",
    "tolerance 1e-9 relative",
]

MEAN_METRICS = {"selection_rate", "wmean", "mean_prediction", "accuracy_score"}
NONNEG_METRICS = {"selection_rate", "wmean", "accuracy_score", "count"}


def _div(a, b):
    a, b = float(a), float(b)
    if b == 0:
        if a == 0 or math.isnan(a):
            return math.nan
        return math.copysign(math.inf, a) * (math.copysign(1.0, b))
    return a / b


def _table(res, case, ckeys_expected):
    """Normalise an aggregate result to {control key: [value per metric]}."""
    names = [it["name"] for it in case["metrics"]]
    has_cf = bool(case.get("cf"))
    is_callable = case["mode"] == "callable"
    if is_callable and not has_cf:
        M.need(np.ndim(res) == 0, f"aggregate of a bare callable without control features is not scalar: {res!r}")
        return {(): [res]}
    if is_callable and has_cf:
        M.need(isinstance(res, pd.Series), f"aggregate (callable, control) is {type(res).__name__}")
        keys = M.index_keys(res.index)
        return {k: [res.iloc[i]] for i, k in enumerate(keys)}
    if not has_cf:
        M.need(isinstance(res, pd.Series), f"aggregate (dict) is {type(res).__name__}")
        M.need(list(res.index) == names, f"aggregate index {list(res.index)} != metric names {names}")
        return {(): [res.iloc[j] for j in range(len(names))]}
    M.need(isinstance(res, pd.DataFrame), f"aggregate (dict, control) is {type(res).__name__}")
    M.need(list(res.columns) == names, f"aggregate columns {list(res.columns)} != {names}")
    keys = M.index_keys(res.index)
    return {k: [res.iloc[i, j] for j in range(len(names))] for i, k in enumerate(keys)}


def check(case):
    from fairlearn.metrics import MetricFrame

    mf = MetricFrame(**M.build_metricframe_kwargs(case))
    items = case["metrics"]
    sf_cols = case["sf"]["cols"]
    cf_cols = case["cf"]["cols"] if case.get("cf") else []
    n = case["n"]

    # first-principles table: control key -> (overall values, list over non-empty groups of values)
    if cf_cols:
        cmasks = M.cell_masks(cf_cols)
    else:
        cmasks = {(): np.ones(n, dtype=bool)}
    smasks = M.cell_masks(sf_cols)
    ref = {}
    for ck, cm in cmasks.items():
        groups = []
        for sk, sm in smasks.items():
            m = cm & sm
            if m.sum() > 0:
                groups.append([float(M.ref_metric(it, case, m)) for it in items])
        overall = [float(M.ref_metric(it, case, cm)) for it in items] if cm.sum() > 0 else None
        ref[ck] = (overall, groups)

    tags = set()
    results = {}
    for errors in ("raise", "coerce"):
        results[("min", errors)] = _table(mf.group_min(errors=errors), case, ref)
        results[("max", errors)] = _table(mf.group_max(errors=errors), case, ref)
        for method in ("between_groups", "to_overall"):
            results[("difference", method, errors)] = _table(mf.difference(method=method, errors=errors), case, ref)
            results[("ratio", method, errors)] = _table(mf.ratio(method=method, errors=errors), case, ref)
    for key, tab in results.items():
        M.need(set(tab) == set(ref), f"{key}: control cells {sorted(tab)} != expected {sorted(ref)}")
    # reading an aggregate again, in another order, gives the same answer (no call-history dependence)
    order = case.get("reread", [])
    keys = sorted(results, key=str)
    for pos in order:
        key = keys[pos % len(keys)]
        if key[0] in ("min", "max"):
            again = _table(getattr(mf, "group_" + key[0])(errors=key[1]), case, ref)
        else:
            again = _table(getattr(mf, key[0])(method=key[1], errors=key[2]), case, ref)
        for ck in results[key]:
            for a, b in zip(results[key][ck], again[ck]):
                M.need(M.close(a, b, 0.0) or (pd.isna(a) and pd.isna(b)), f"{key}: second read gives {b!r}, first read gave {a!r} (read order {order})")

    for ck, (overall, groups) in ref.items():
        for j, it in enumerate(items):
            vals = [g[j] for g in groups]
            where = f"metric {it['name']}({it['func']}) control cell {ck}"
            if not vals:
                # empty control cell: everything NaN
                for key, tab in results.items():
                    got = tab[ck][j]
                    M.need(np.ndim(got) == 0 and pd.isna(got), f"{key} {where}: empty control cell gives {got!r}, expected NaN")
                tags.add("empty_control_cell")
                continue
            if any(math.isnan(v) for v in vals):
                # a metric that is undefined (NaN) on a non-empty group: the statement fixes nothing for this column
                # beyond "NaN or the extreme of the defined groups" - but the *other* columns of the same frame are
                # checked in full below (an undefined cell of one metric must not remove the group from another's)
                fin = [v for v in vals if not math.isnan(v)]
                for errors in ("raise", "coerce"):
                    for k, f in (("min", min), ("max", max)):
                        got = results[(k, errors)][ck][j]
                        M.need(np.ndim(got) == 0 and (pd.isna(got) or (fin and M.close(got, f(fin)))),
                               f"group_{k}(errors={errors}) {where} = {got!r}; groups {vals}")
                if len(items) > 1:
                    tags.add("nan_cell_beside_other_metric")
                continue
            dense = all((c_ & s_).sum() > 0 for c_ in cmasks.values() for s_ in smasks.values())  # no NaN cell: integer columns stay integer
            if dense and it["func"] == "bigint" and all(i["func"] in ("bigint", "count", "npint") for i in items):
                # integer-valued metrics beyond 2**53 (all columns integral): the aggregates are exact integers
                cm = cmasks[ck]
                ivals = [int(M.ref_metric(it, case, cm & sm)) for sm in smasks.values() if (cm & sm).sum() > 0]
                iov = int(M.ref_metric(it, case, cm))
                iexp = {"min": min(ivals), "max": max(ivals), ("difference", "between_groups"): max(ivals) - min(ivals),
                        ("difference", "to_overall"): max(abs(v - iov) for v in ivals)}
                for errors in ("raise", "coerce"):
                    for key, e in iexp.items():
                        got = results[(key, errors)][ck][j] if isinstance(key, str) else results[key + (errors,)][ck][j]
                        M.need(np.ndim(got) == 0 and not isinstance(got, float) and int(got) == e,
                               f"{key} (errors={errors}) of an integer-valued metric {where} = {got!r}, exact value {e}; groups {ivals}, overall {iov}")
                tags.add("integer_metric_beyond_2**53")
            mn, mx, ov = min(vals), max(vals), overall[j]
            sc = max(abs(mn), abs(mx), abs(ov), 1e-300)  # operand magnitude: comparisons are relative to it
            if len(set(vals)) > 1:
                tags.add("nt")
            elif len(vals) > 1:
                tags.add("all_equal_groups")
            if mn < 0:
                tags.add("negative_values")
            if it["func"] == "tiny" and len(set(vals)) > 1:
                tags.add("tiny_valued_metric")
            exp = {
                "min": mn,
                "max": mx,
                ("difference", "between_groups"): mx - mn,
                ("difference", "to_overall"): max(abs(v - ov) for v in vals),
                ("ratio", "between_groups"): _div(mn, mx),
            }
            rs = [_div(v, ov) for v in vals]
            # fold(r) = min(r, 1/r): r > 0 -> min(r, 1/r); r = 0 -> 0; r <= -1 -> r (there the statement and the documented
            # "express as a number below 1" coincide); only r in (-1, 0) is ambiguous (statement 1/r, documentation r)
            clean = all(math.isfinite(r) and (r >= 0 or r <= -1) for r in rs)
            all_nan = all(math.isnan(r) for r in rs)
            if ov == 0 or mx == 0:
                tags.add("zero_denominator")
            for errors in ("raise", "coerce"):
                for k in ("min", "max"):
                    got = results[(k, errors)][ck][j]
                    M.need(np.ndim(got) == 0 and M.close(got, exp[k], 1e-9, sc), f"group_{k}(errors={errors}) {where} = {got!r}, expected {exp[k]!r} from groups {vals}")
                for method in ("between_groups", "to_overall"):
                    got = results[("difference", method, errors)][ck][j]
                    e = exp[("difference", method)]
                    M.need(np.ndim(got) == 0 and M.close(got, e, 1e-9, sc), f"difference({method},{errors}) {where} = {got!r}, expected {e!r}; groups {vals}, overall {ov}")
                    M.need(float(got) >= 0, f"difference({method},{errors}) {where} is negative: {got!r}")
                got = results[("ratio", "between_groups", errors)][ck][j]
                e = exp[("ratio", "between_groups")]
                M.need(np.ndim(got) == 0 and M.close(got, e), f"ratio(between_groups,{errors}) {where} = {got!r}, expected min/max = {e!r}; groups {vals}")
                got_to = results[("ratio", "to_overall", errors)][ck][j]
                M.need(np.ndim(got_to) == 0, f"ratio(to_overall) {where} not scalar: {got_to!r}")
                if clean:
                    folded = [min(r, _div(1.0, r)) if r > 0 else (0.0 if r == 0 else r) for r in rs]
                    e = min(folded)
                    M.need(M.close(got_to, e), f"ratio(to_overall,{errors}) {where} = {got_to!r}, expected {e!r}; r = {rs}")
                elif all_nan:
                    M.need(pd.isna(got_to), f"ratio(to_overall,{errors}) {where} = {got_to!r}, expected NaN (every group/overall is 0/0)")
                else:
                    tags.add("ratio_weak_region")
                    cands = []
                    for r in rs:
                        cands += [r, _div(1.0, r)]
                    gt = float(got_to)
                    M.need(math.isnan(gt) or any(M.close(gt, c) for c in cands if not math.isnan(c)),
                           f"ratio(to_overall,{errors}) {where} = {got_to!r} is neither r nor 1/r of any group; r = {rs}")
                    M.need(math.isnan(gt) or gt <= 1 + 1e-9, f"ratio(to_overall,{errors}) {where} = {got_to!r} > 1")
                # derived inequalities
                rb = float(results[("ratio", "between_groups", errors)][ck][j])
                if mx > 0 and not math.isnan(rb):
                    M.need(rb <= 1 + 1e-9, f"ratio(between_groups) {where} = {rb} > 1")
                gt = float(got_to)
                if not math.isnan(gt):
                    M.need(gt <= 1 + 1e-9, f"ratio(to_overall) {where} = {gt} > 1")
                if it["func"] in NONNEG_METRICS:
                    for v in (rb, gt):
                        M.need(math.isnan(v) or v >= 0, f"ratio of a non-negative metric is negative: {v} {where}")
                db = float(results[("difference", "between_groups", errors)][ck][j])
                dt = float(results[("difference", "to_overall", errors)][ck][j])
                tol = 1e-9 * sc
                M.need(db <= 2 * dt + tol, f"between_groups difference {db} > 2 x to_overall difference {dt}; {where}")
                if it["func"] in MEAN_METRICS and _same_weights(it):
                    M.need(dt <= db + tol, f"weighted-mean metric: to_overall difference {dt} > between_groups difference {db}; {where}")
                    tags.add("mean_metric")
    if cf_cols:
        tags.add("control")
    if case["mode"] == "dict":
        tags.add("dict")
    return sorted(tags)


def _same_weights(it):
    # the convexity argument needs the metric to be a weighted mean with positive weights: true for
    # every family member with or without a positive sample_weight
    return True


@st.composite
def _strategy(draw):
    c = draw(_base_strategy())
    c["reread"] = draw(st.lists(st.integers(0, 11), min_size=0, max_size=4))
    return c


def _base_strategy():
    return M.mf_case(
        metric_keys=("selection_rate", "selection_rate", "wmean", "mean_prediction", "wmean", "count", "lin", "tiny", "nanhit", "bigint", "bigint"),
        allow_collisions=False,
    )


SUBS = [
    Sub("aggregates", check, strategy=_strategy, quick=1200, thorough=30000, shards=16,
        floors={"nt": 0.236, "zero_denominator": 0.05, "control": 0.15, "negative_values": 0.03,
                "all_equal_groups": 0.05, "tiny_valued_metric": 0.02, "mean_metric": 0.282, "dict": 0.234,
                "nan_cell_beside_other_metric": 0.011}),
]
