"""C12 - rows are matched by position, not by container type, index label or row order.

Differential / metamorphic oracle: result(any container, any pandas index labels) == result(plain
ndarrays); joint row permutation leaves metric results unchanged; a bijection on group labels only
renames index entries.
"""

from __future__ import annotations

import math

import re

import numpy as np
import pandas as pd
from hypothesis import strategies as st

from vf import gen
from vf import mfcommon as M
from vf.learners import ExactTable, ScoreColumn
from vf.runner import PropertyViolation, Sub

PROPERTY = "C12"
LEVEL = "exploration"
RULE = (
    "One base dataset per case plus a drawn container (list, ndarray, (n,1) ndarray, Series, one-column "
    "DataFrame; dict/DataFrame/2-d array for features) and pandas index plan (default, reversed, offset, "
    "duplicated, string, shuffled labels) per argument, a drawn row permutation and a drawn bijection on group "
    "labels; entry points MetricFrame, named fairness metrics, moments (load_data/gamma/signed_weights), "
    "ThresholdOptimizer, ExponentiatedGradient and GridSearch with exact learners. Non-trivial: at least one "
    "pandas argument with a non-default index and >= 2 groups."
)
ASSUMPTIONS = [
    "plain-ndarray call of the same entry point is the reference (differential), so a defect common to all "
    "containers is out of scope here (covered by C01-C09)",
    "tolerance 1e-12 relative for permutation invariance of metrics (summation order changes)",
    "row permutation / label bijection are asserted for metrics and moments only; for the iterative estimators "
    "they can legitimately change tie-breaking and the grid basis",
]

PANDAS = ("series", "dataframe")


def _close(a, b, tol=1e-12):
    return M.close(a, b, tol)


def _frame_map(obj):
    """{(index key, column): value} of a scalar / Series / DataFrame result."""
    if isinstance(obj, pd.DataFrame):
        keys = M.index_keys(obj.index)
        return {(k, str(c)): obj.iloc[i, j] for i, k in enumerate(keys) for j, c in enumerate(obj.columns)}
    if isinstance(obj, pd.Series):
        keys = M.index_keys(obj.index)
        return {(k, ""): obj.iloc[i] for i, k in enumerate(keys)}
    return {((), ""): obj}


def _cmp_maps(a, b, what, tol=1e-12, keymap=None):
    if keymap:
        a = {(tuple(keymap(x) for x in k[0]), k[1]): v for k, v in a.items()}
    if set(a) != set(b):
        raise PropertyViolation(f"{what}: index entries differ: {sorted(map(str, set(a) ^ set(b)))}")
    for k in a:
        if not _close(a[k], b[k], tol):
            raise PropertyViolation(f"{what}: entry {k}: {a[k]!r} vs {b[k]!r}")


def _mf_results(mf):
    out = {"by_group": _frame_map(mf.by_group), "overall": _frame_map(mf.overall),
           "group_min": _frame_map(mf.group_min()), "group_max": _frame_map(mf.group_max())}
    for m in ("between_groups", "to_overall"):
        out["difference_" + m] = _frame_map(mf.difference(method=m))
        out["ratio_" + m] = _frame_map(mf.ratio(method=m))
    return out


def _plain(case):
    """The same case with every argument as a plain ndarray (features as 2-d object array)."""
    c = dict(case)
    c["yt_kind"] = c["yp_kind"] = "ndarray"
    c["yt_index"] = c["yp_index"] = "default"
    c["sf"] = dict(case["sf"], kind="ndarray2d" if len(case["sf"]["cols"]) > 1 else "ndarray", index="default")
    if case.get("cf"):
        c["cf"] = dict(case["cf"], kind="ndarray2d" if len(case["cf"]["cols"]) > 1 else "ndarray", index="default")
    c["metrics"] = [dict(it, params={pn: dict(p, kind="ndarray", index="default") for pn, p in it["params"].items()})
                    for it in case["metrics"]]
    return c


def _permuted(case, perm):
    def P(v):
        return [v[i] for i in perm]

    c = dict(case)
    c["y_true"], c["y_pred"] = P(case["y_true"]), P(case["y_pred"])
    c["sf"] = dict(case["sf"], cols=[P(col) for col in case["sf"]["cols"]])
    if case.get("cf"):
        c["cf"] = dict(case["cf"], cols=[P(col) for col in case["cf"]["cols"]])
    c["metrics"] = [dict(it, params={pn: dict(p, values=P(p["values"])) for pn, p in it["params"].items()})
                    for it in case["metrics"]]
    return c


def _bijection(col, shift):
    """A bijection on the observed group labels: a rotation within the label set (odd shift) or a renaming to fresh
    string labels in rotated order (even shift) - the latter also changes the type and sort order of the labels."""
    levels = M.observed_levels(col)
    levels_sorted = sorted(levels, key=lambda v: M.norm(v))
    k = len(levels_sorted)
    if shift % 2 == 0:
        fresh = ["n%d" % ((i + shift) % k) for i in range(k)]
        mapping = {M.norm(v): fresh[i] for i, v in enumerate(levels_sorted)}
    else:
        mapping = {M.norm(v): levels_sorted[(i + shift) % k] for i, v in enumerate(levels_sorted)}
    return [mapping[M.norm(v)] for v in col], mapping


def check_metricframe(case):
    from fairlearn.metrics import MetricFrame

    has_names = case["sf"]["kind"] in ("dataframe", "dict", "dict_series", "series") or (
        case.get("cf") and case["cf"]["kind"] in ("dataframe", "dict", "dict_series", "series"))
    mfA = MetricFrame(**M.build_metricframe_kwargs(case))
    # feature names given through dict keys / DataFrame columns / Series names label the levels, in the given order
    names = M.effective_feature_names(case)
    n_sf = len(case["sf"]["cols"])
    got_names = list(mfA.control_levels or []) + list(mfA.sensitive_levels)
    if got_names != names[n_sf:] + names[:n_sf] or list(mfA.by_group.index.names) != names[n_sf:] + names[:n_sf]:
        raise PropertyViolation(f"feature names: control/sensitive levels {got_names}, by_group index names {list(mfA.by_group.index.names)}; given (control first) {names[n_sf:] + names[:n_sf]}")
    A = _mf_results(mfA)
    B = _mf_results(MetricFrame(**M.build_metricframe_kwargs(_plain(case))))
    for k in A:
        _cmp_maps(A[k], B[k], f"{k}: containers/index labels vs plain ndarrays", 1e-12)
    perm = case["perm"]
    Pm = _mf_results(MetricFrame(**M.build_metricframe_kwargs(_permuted(case, perm))))
    for k in A:
        _cmp_maps(A[k], Pm[k], f"{k}: jointly permuted rows", 1e-9 if any(it["func"] in ("lin", "npfloat") for it in case["metrics"]) else 1e-12)
    # label bijection on the first sensitive column
    col0 = case["sf"]["cols"][0]
    new0, mapping = _bijection(col0, case["shift"])
    c2 = dict(case)
    c2["sf"] = dict(case["sf"], cols=[new0] + case["sf"]["cols"][1:])
    Bj = _mf_results(MetricFrame(**M.build_metricframe_kwargs(c2)))
    n_cf = len(case["cf"]["cols"]) if case.get("cf") else 0

    def remap_key(key):
        key = list(key)
        if len(key) > n_cf:
            key[n_cf] = M.norm(mapping[key[n_cf]])
        return tuple(key)

    a2 = {(remap_key(k[0]), k[1]): v for k, v in A["by_group"].items()}
    _cmp_maps(a2, Bj["by_group"], "by_group under a bijection of the group labels", 1e-12)
    for k in A:
        if k != "by_group":
            _cmp_maps(A[k], Bj[k], f"{k} under a bijection of the group labels", 1e-12)

    tags = []
    kinds = [case["yt_kind"], case["yp_kind"]]
    plans = [case["yt_index"], case["yp_index"]]
    pandas_nondefault = any(k in PANDAS and p != "default" for k, p in zip(kinds, plans))
    if case["sf"]["kind"] in ("dataframe", "series", "series_noname", "dict_series") and case["sf"]["index"] != "default":
        pandas_nondefault = True
    for it in case["metrics"]:
        for p in it["params"].values():
            if p["kind"] == "series" and p["index"] != "default":
                pandas_nondefault = True
    groups = len({tuple(M.norm(c[i]) for c in case["sf"]["cols"]) for i in range(case["n"])})
    if pandas_nondefault and groups >= 2:
        tags.append("nt")
    if pandas_nondefault:
        tags.append("pandas_nondefault_index")
    if len(M.observed_levels(col0)) >= 2 and (case["shift"] % 2 == 0 or case["shift"] % len(M.observed_levels(col0)) != 0):
        tags.append("bijection_moves_labels")
    if list(perm) != sorted(perm):
        tags.append("perm_nontrivial")
    return tags


NAMED = ["demographic_parity_difference", "demographic_parity_ratio", "equal_opportunity_difference",
         "equal_opportunity_ratio", "equalized_odds_difference", "equalized_odds_ratio",
         "accuracy_score_group_min", "true_negative_rate_difference"]


def check_named(case):
    import fairlearn.metrics as fm

    yt, yp, g, w = case["y_true"], case["y_pred"], case["g"], case["w"]
    n = len(yt)
    perm = case["perm"]
    new_g, _ = _bijection(g, case["shift"])
    tags = set()
    for name in NAMED:
        f = getattr(fm, name)
        for method in ("between_groups", "to_overall"):
            kw = {"method": method} if not name.endswith("group_min") else {}

            def call(yt_, yp_, g_, w_, kinds, plans):
                args = {"sensitive_features": gen.wrap_vector(kinds[2], g_, plans[2], name="s")}
                if w_ is not None:
                    args["sample_weight"] = gen.wrap_vector(kinds[3] if kinds[3] != "dataframe" else "series", w_, plans[3])
                return f(gen.wrap_vector(kinds[0], yt_, plans[0]), gen.wrap_vector(kinds[1], yp_, plans[1]), **args, **kw)

            ref = call(yt, yp, g, w, ["ndarray"] * 4, ["default"] * 4)
            got = call(yt, yp, g, w, case["kinds"], case["plans"])
            if not _close(got, ref):
                raise PropertyViolation(f"{name}({kw}): containers {case['kinds']} / index plans {case['plans']} give {got!r}, plain ndarrays {ref!r}")
            P = lambda v: None if v is None else [v[i] for i in perm]  # noqa: E731
            pr = call(P(yt), P(yp), P(g), P(w), case["kinds"], case["plans"])
            if not _close(pr, ref):
                raise PropertyViolation(f"{name}({kw}): permuting all rows changes {ref!r} -> {pr!r}")
            bj = call(yt, yp, new_g, w, case["kinds"], case["plans"])
            if not _close(bj, ref):
                raise PropertyViolation(f"{name}({kw}): renaming the group labels changes {ref!r} -> {bj!r}")
    nd = any(k in PANDAS and p != "default" for k, p in zip(case["kinds"], case["plans"]))
    if nd and len(M.observed_levels(g)) >= 2:
        tags.add("nt")
    if nd:
        tags.add("pandas_nondefault_index")
    return sorted(tags)


# ---- moments ------------------------------------------------------------------------------------------------


def _moment(name, ratio):
    import fairlearn.reductions as fr

    if name == "BoundedGroupLoss":
        return fr.BoundedGroupLoss(fr.SquareLoss(0, 1), upper_bound=0.3)
    if name == "ErrorRate":
        return fr.ErrorRate(costs={"fp": 1.0, "fn": 2.0})
    if ratio is None:
        return getattr(fr, name)(difference_bound=0.05)
    return getattr(fr, name)(ratio_bound=ratio, ratio_bound_slack=0.02)


def _X(levels, kind, plan="default"):
    X = np.asarray(levels, dtype=float).reshape(-1, 1)
    if kind == "dataframe":
        return pd.DataFrame(X, columns=["f0"], index=gen.make_index(plan, len(levels)))
    return X


def _load(case, kinds, plans, y, g, cf, levels, xkind):
    m = _moment(case["moment"], case.get("ratio"))
    kw = {"sensitive_features": gen.wrap_vector(kinds[1], g, plans[1], name="s")}
    if cf is not None and case["moment"] not in ("BoundedGroupLoss",):
        kw["control_features"] = gen.wrap_vector(kinds[2], cf, plans[2], name="c")
    ydt = case.get("y_dtype", "int")
    if kinds[0] == "ndarray" and plans[0] == "default" or not set(y) <= {0, 1}:
        Xo, yo = _X(levels, xkind, plans[3]), gen.wrap_vector(kinds[0], y, plans[0], name="y")
    else:  # 0/1 labels arrive in some element type (bool, uint8, float32, ...); the reference run uses plain ints
        Xo, yo = _X(levels, xkind, plans[3]), gen.typed_vector(kinds[0], y, plans[0], name="y", dtype=ydt)
    snap = gen.snapshot((Xo, yo, kw))
    m.load_data(Xo, yo, **kw)
    if not gen.unchanged(snap, (Xo, yo, kw)):
        raise PropertyViolation(f"{case['moment']}.load_data modified one of its arguments in place")
    return m


def _gamma_map(s):
    idx = s.index
    out = {}
    for i, e in enumerate(idx.tolist()):
        if not isinstance(e, tuple):
            e = (e,)
        out[_key(e)] = float(s.iloc[i])
    return out


def _key(e):
    """Index entry -> tuple of strings, with one name per label class."""
    if not isinstance(e, tuple):
        e = (e,)
    return tuple(_LABEL_EVENT.sub(lambda mo: "label=" + ("1" if mo.group(1) in ("1.0", "True") else "0"), str(x)) for x in e)


# event names are built from str(label): the same class is 'label=1', 'label=1.0' or 'label=True' depending on the
# element type of y - one name here
_LABEL_EVENT = re.compile(r"label=(1\.0|0\.0|True|False)$")


def check_moment(case):
    y, g, cf, levels = case["y"], case["g"], case["cf"], case["levels"]
    n = len(y)
    h = np.asarray(case["h"], dtype=float)
    pred = lambda X: h  # noqa: E731
    ref = _load(case, ["ndarray"] * 3, ["default"] * 4, y, g, cf, levels, "ndarray")
    got = _load(case, case["kinds"], case["plans"], y, g, cf, levels, case["x_kind"])
    g_ref, g_got = _gamma_map(ref.gamma(pred)), _gamma_map(got.gamma(pred))
    if set(g_ref) != set(g_got):
        raise PropertyViolation(f"{case['moment']}: gamma index differs between containers and plain ndarrays: {sorted(g_got)} vs {sorted(g_ref)}")
    for k in g_ref:
        if not _close(g_got[k], g_ref[k]):
            raise PropertyViolation(f"{case['moment']}: gamma[{k}] = {g_got[k]!r} with containers {case['kinds']}/{case['plans']} but {g_ref[k]!r} with plain ndarrays")
    lam_vals = case["lam"]

    def lam_for(m):
        idx = m.index
        if isinstance(idx, list):
            return pd.Series([lam_vals[0]], index=idx)
        return pd.Series([lam_vals[i % len(lam_vals)] for i in range(len(idx))], index=idx)

    if case["moment"] == "ErrorRate":
        sw_ref, sw_got = ref.signed_weights(), got.signed_weights()
    else:
        sw_ref, sw_got = ref.signed_weights(lam_for(ref)), got.signed_weights(lam_for(got))
    a, b = np.asarray(sw_ref, dtype=float), np.asarray(sw_got, dtype=float)
    if a.shape != b.shape or not np.allclose(a, b, rtol=1e-12, atol=1e-12):
        raise PropertyViolation(f"{case['moment']}: signed_weights differ between containers {case['kinds']}/{case['plans']} and plain ndarrays: {b.tolist()} vs {a.tolist()}")
    # permutation: gamma invariant, signed weights permuted
    perm = case["perm"]
    P = lambda v: None if v is None else [v[i] for i in perm]  # noqa: E731
    hp = h[list(perm)]
    pm = _load(case, case["kinds"], case["plans"], P(y), P(g), P(cf), P(levels), case["x_kind"])
    g_pm = _gamma_map(pm.gamma(lambda X: hp))
    if set(g_pm) != set(g_ref):
        raise PropertyViolation(f"{case['moment']}: gamma index changes under row permutation")
    for k in g_ref:
        if not _close(g_pm[k], g_ref[k], 1e-10):
            raise PropertyViolation(f"{case['moment']}: gamma[{k}] changes under row permutation: {g_ref[k]!r} -> {g_pm[k]!r}")
    if case["moment"] != "ErrorRate":
        lam_ref = lam_for(ref)
        lam_map = {_key(e): lam_ref.iloc[i] for i, e in enumerate(lam_ref.index.tolist())}
        lam_pm = pd.Series([lam_map[_key(e)] for e in pm.index.tolist()], index=pm.index)
        sw_pm = np.asarray(pm.signed_weights(lam_pm), dtype=float)
        if not np.allclose(sw_pm, a[list(perm)], rtol=1e-10, atol=1e-12):
            raise PropertyViolation(f"{case['moment']}: signed_weights of permuted rows are not the permuted signed weights")
    # group-label bijection: gamma entries are renamed
    new_g, mapping = _bijection(g, case["shift"])
    bj = _load(case, case["kinds"], case["plans"], y, new_g, cf, levels, case["x_kind"])
    g_bj = _gamma_map(bj.gamma(pred))
    if case["moment"] != "ErrorRate":
        smap = {str(v): str(mapping[M.norm(v)]) for v in M.observed_levels(g)}
        renamed = {tuple(smap.get(x, x) if i == len(k) - 1 else x for i, x in enumerate(k)): v for k, v in g_ref.items()}
        if set(renamed) != set(g_bj):
            raise PropertyViolation(f"{case['moment']}: bijection on group labels does not simply rename the index: {sorted(g_bj)} vs {sorted(renamed)}")
        for k in renamed:
            if not _close(renamed[k], g_bj[k], 1e-12):
                raise PropertyViolation(f"{case['moment']}: gamma[{k}] changes under a group-label bijection: {renamed[k]!r} -> {g_bj[k]!r}")
    # ... and the per-row signed weights do not change at all when groups are merely renamed (multipliers follow
    # their group)
    if case["moment"] != "ErrorRate":
        inv = {str(mapping[M.norm(v)]): str(v) for v in M.observed_levels(g)}
        lam_ref = lam_for(ref)
        lam_by_key = {_key(e): float(lam_ref.iloc[i])
                      for i, e in enumerate(lam_ref.index.tolist())}

        def orig_key(e):
            e = _key(e)
            return e[:-1] + (inv.get(e[-1], e[-1]),)

        lam_bj = pd.Series([lam_by_key[orig_key(e)] for e in bj.index.tolist()], index=bj.index)
        sw_bj = np.asarray(bj.signed_weights(lam_bj), dtype=float)
        if sw_bj.shape != a.shape or not np.allclose(sw_bj, a, rtol=1e-10, atol=1e-12):
            raise PropertyViolation(f"{case['moment']}: signed_weights change when the group labels are renamed by {smap if case['moment'] != 'ErrorRate' else ''}: {sw_bj.tolist()} vs {a.tolist()}")
    tags = []
    nd = any(k in PANDAS and p != "default" for k, p in zip(case["kinds"], case["plans"])) or (
        case["x_kind"] == "dataframe" and case["plans"][3] != "default")
    if nd and len(M.observed_levels(g)) >= 2:
        tags.append("nt")
    if cf is not None and case["moment"] != "BoundedGroupLoss":
        tags.append("control")
    tags.append("moment:" + case["moment"])
    return tags


def check_multi_column_renaming(case):
    """Several sensitive columns with long cells containing the separator ',' and the escape character: renaming
    every column's labels by a bijection onto short plain labels only renames the groups - the number of groups, the
    gamma values of a parity moment, the number of ThresholdOptimizer rules and its attained objective are unchanged."""
    import fairlearn.reductions as fr
    from fairlearn.postprocessing import ThresholdOptimizer

    table, y, scores = case["table"], case["y"], case["scores"]
    n, ncol = len(table), len(table[0])
    maps = []
    for j in range(ncol):
        levels = sorted({row[j] for row in table})
        perm = case["perms"][j]
        maps.append({v: "c%d_%d" % (j, perm[i % len(perm)] if len(perm) >= len(levels) else i) for i, v in enumerate(levels)})
        if len(set(maps[-1].values())) != len(levels):
            maps[-1] = {v: "c%d_%d" % (j, i) for i, v in enumerate(levels)}
    renamed = [[maps[j][row[j]] for j in range(ncol)] for row in table]
    tuples = {tuple(r) for r in table}

    def wrap(t):
        if case["kind"] == "dataframe":
            return pd.DataFrame(t, columns=["s%d" % j for j in range(ncol)], index=np.arange(n)[::-1])
        if case["kind"] == "ndarray":
            return np.array(t, dtype=object)
        return [list(r) for r in t]

    X = np.asarray(scores, dtype=float).reshape(-1, 1)
    h = np.asarray(case["h"], dtype=float)
    out = []
    for t in (table, renamed):
        m = fr.DemographicParity()
        m.load_data(X, np.asarray(y), sensitive_features=wrap(t))
        g = m.gamma(lambda X_: h)
        plus = sorted(round(float(v), 12) for k, v in zip(g.index.tolist(), g.values) if k[0] == "+")
        to = ThresholdOptimizer(estimator=ScoreColumn(), constraints="demographic_parity", prefit=True, predict_method="predict",
                                grid_size=case["grid_size"])
        to.fit(X, np.asarray(y), sensitive_features=wrap(t))
        p = np.asarray(to._pmf_predict(X, sensitive_features=wrap(t)))[:, 1]
        out.append((plus, p, len(to.interpolated_thresholder_.interpolation_dict)))
    (g0, p0, k0), (g1, p1, k1) = out
    if len(g0) != len(tuples) or k0 != len(tuples):
        raise PropertyViolation(f"{len(tuples)} distinct tuples give {len(g0)} groups in DemographicParity.gamma and {k0} ThresholdOptimizer rules; tuples {sorted(tuples)}")
    if len(g1) != len(g0) or not np.allclose(g0, g1, rtol=0, atol=1e-10):
        raise PropertyViolation(f"renaming the labels of every column by a bijection changes gamma: {g0} -> {g1}; tuples {sorted(tuples)}")
    # the fitted rules may differ between the two labellings where the objective has ties (groups are visited in label
    # order); what a renaming cannot change is the number of rules and the attained objective
    ya = np.asarray(y)
    acc0, acc1 = float(np.where(ya == 1, p0, 1 - p0).mean()), float(np.where(ya == 1, p1, 1 - p1).mean())
    if k1 != k0 or abs(acc0 - acc1) > 1e-9:
        raise PropertyViolation(f"renaming the labels of every column by a bijection changes the fitted ThresholdOptimizer: {k0} -> {k1} rules, expected accuracy {acc0!r} -> {acc1!r}")
    tags = ["nt"] if len(tuples) >= 2 else []
    if max(len(c) for r in table for c in r) >= 8:
        tags.append("long_cells")
    return tags


@st.composite
def _multi_col_cases(draw):
    ncol = draw(st.sampled_from([2, 2, 3]))
    cell = st.one_of(st.sampled_from(["a", "b", ",", "\\", "a,b", ",,", "\\,"]),
                     st.text(alphabet=["a", ",", "\\", "b", " "], min_size=4, max_size=12))
    k = draw(st.integers(2, 5))
    tuples = []
    base = [draw(cell) for _ in range(ncol)]
    tuples.append(tuple(base))
    while len(tuples) < k:
        # tuples that share a long prefix with an earlier one and differ only near the end of a cell
        t = list(draw(st.sampled_from(tuples)))
        j = draw(st.integers(0, ncol - 1))
        t[j] = draw(st.sampled_from([t[j] + "x", t[j][:-1] + "y" if t[j] else "y", draw(cell)]))
        if tuple(t) not in tuples:
            tuples.append(tuple(t))
        else:
            k -= 1
    rows, y = [], []
    for t in tuples:
        m = draw(st.integers(2, 4))
        rows += [list(t)] * m
        y += [0, 1] + [draw(st.integers(0, 1)) for _ in range(m - 2)]
    n = len(rows)
    perm = draw(st.permutations(range(n)))
    return {"table": [rows[i] for i in perm], "y": [y[i] for i in perm],
            "scores": draw(st.lists(st.sampled_from([0.1, 0.3, 0.5, 0.7, 0.9]), min_size=n, max_size=n)),
            "h": draw(st.lists(st.sampled_from([0.0, 1.0, 0.25]), min_size=n, max_size=n)),
            "perms": [list(draw(st.permutations(range(6)))) for _ in range(ncol)],
            "kind": draw(st.sampled_from(["dataframe", "ndarray", "lists"])), "grid_size": draw(st.sampled_from([10, 1000]))}


def check_metricframe_huge_series(case):
    """A million rows, y_true and y_pred as Series whose index labels differ (one shuffled, one offset): rows are still
    paired by position with each other and with the sensitive feature array."""
    import fairlearn.metrics as fm
    from fairlearn.metrics import MetricFrame

    rs = np.random.RandomState(case["seed"])
    n, G = case["n"], case["groups"]
    g = rs.randint(0, G, size=n)
    yt = rs.randint(0, 2, size=n)
    flip = rs.rand(n) < (0.1 + 0.25 * g / max(G - 1, 1))  # accuracy differs between groups
    yp = np.where(flip, 1 - yt, yt)
    idx_t = rs.permutation(n) if case["plans"][0] == "shuffled" else np.arange(n) + 7
    idx_p = np.arange(n) if case["plans"][1] == "default" else rs.permutation(n)
    mf = MetricFrame(metrics={"acc": M.m_wmean, "sel": fm.selection_rate}, y_true=pd.Series(yt, index=idx_t), y_pred=pd.Series(yp, index=idx_p),
                     sensitive_features=g if case["sf_kind"] == "ndarray" else pd.Series(g, index=rs.permutation(n)))
    for k in range(G):
        m = g == k
        e_acc, e_sel = float((yt[m] == yp[m]).mean()), float((yp[m] == 1).mean())
        got = mf.by_group.loc[k]
        if abs(float(got["acc"]) - e_acc) > 1e-12 or abs(float(got["sel"]) - e_sel) > 1e-12:
            raise PropertyViolation(f"n={n}: by_group[{k}] = {got.to_dict()}, from the rows paired by position: acc {e_acc!r}, sel {e_sel!r}")
    return ["nt"]


@st.composite
def _huge_series_cases(draw):
    return {"n": draw(st.sampled_from([1000000, 1000003, 1048576])), "groups": draw(st.integers(2, 3)), "seed": draw(st.integers(0, 2**31 - 1)),
            "plans": [draw(st.sampled_from(["shuffled", "offset"])), draw(st.sampled_from(["default", "shuffled"]))],
            "sf_kind": draw(st.sampled_from(["ndarray", "series"]))}


# ---- estimators -------------------------------------------------------------------------------------------------


def _interp_repr(d):
    out = {}
    for k, b in d.items():
        out[str(k)] = (round(float(b.p0), 12), b.operation0.operator, float(b.operation0.threshold),
                       round(float(b.p1), 12), b.operation1.operator, float(b.operation1.threshold),
                       round(float(b.get("p_ignore", 0.0)), 12), round(float(b.get("prediction_constant", 0.0)), 12))
    return out


def _to_objective(case, y, g, p):
    """Expected objective of a randomised rule with P(1) = p on the training rows (first principles)."""
    def obj(rows):
        yy, pp = y[rows], p[rows]
        tpr = pp[yy == 1].mean() if (yy == 1).any() else 0.0
        tnr = (1 - pp[yy == 0]).mean() if (yy == 0).any() else 0.0
        if case["objective"] == "accuracy_score":
            return float(np.where(yy == 1, pp, 1 - pp).mean())
        return 0.5 * (tpr + tnr)

    n = len(y)
    if case["constraint"] == "equalized_odds":
        return obj(np.arange(n))
    tot = 0.0
    for lab in sorted(set(g)):
        rows = np.array([i for i in range(n) if g[i] == lab])
        tot += len(rows) / n * obj(rows)
    return tot


def check_threshold_optimizer(case):
    from fairlearn.postprocessing import ThresholdOptimizer

    y, g, scores = case["y"], case["g"], case["scores"]
    n = len(y)

    def fit(kinds, plans, xkind):
        to = ThresholdOptimizer(estimator=ScoreColumn(), constraints=case["constraint"], objective=case["objective"],
                                prefit=case["prefit"], predict_method="predict", grid_size=case["grid_size"], flip=case["flip"])
        X = _X(scores, xkind, plans[2])
        # labels in {0,1} may arrive as ints, floats or bools (only in the container run; the reference uses ints)
        ydt = case.get("y_dtype", "int") if kinds[0] != "ndarray" or plans[0] != "default" else "int"
        yo = gen.typed_vector(kinds[0], y, plans[0], name=case["yname"], dtype=ydt)
        so = gen.wrap_vector(kinds[1], g, plans[1], name=case.get("sname", "s"))
        snap = gen.snapshot((X, yo, so))
        to.fit(X, yo, sensitive_features=so)
        if not gen.unchanged(snap, (X, yo, so)):
            raise PropertyViolation("ThresholdOptimizer.fit modified one of its arguments in place")
        return to, X

    ref, Xr = fit(["ndarray", "ndarray"], ["default"] * 3, "ndarray")
    got, Xg = fit(case["kinds"], case["plans"], case["x_kind"])
    a, b = _interp_repr(ref.interpolated_thresholder_.interpolation_dict), _interp_repr(got.interpolated_thresholder_.interpolation_dict)
    if a != b:
        raise PropertyViolation(f"ThresholdOptimizer({case['constraint']}): interpolation_dict differs between containers {case['kinds']}/{case['plans']} (y named {case['yname']!r}) and plain ndarrays: {b} vs {a}")
    pa = ref._pmf_predict(Xr, sensitive_features=np.asarray(g))
    # at predict time the groups arrive in yet another container (also object-dtype arrays / Series): the rule of a
    # group is found whatever container carried its label at fit time
    pk = case.get("predict_kind") or case["kinds"][1]
    sq = gen.wrap_vector(pk, g, case["plans"][3], name="s")
    snapq = gen.snapshot((Xg, sq))
    pb = got._pmf_predict(Xg, sensitive_features=sq)
    got.predict(Xg, sensitive_features=sq, random_state=1)
    if not gen.unchanged(snapq, (Xg, sq)):
        raise PropertyViolation("ThresholdOptimizer prediction modified its arguments in place")
    if not np.allclose(pa, pb, rtol=0, atol=1e-12):
        raise PropertyViolation("ThresholdOptimizer: _pmf_predict differs between containers and plain ndarrays")
    ya = ref.predict(Xr, sensitive_features=np.asarray(g), random_state=case["seed"])
    yb = got.predict(Xg, sensitive_features=gen.wrap_vector(pk, g, case["plans"][3], name="s"), random_state=case["seed"])
    if not np.array_equal(np.asarray(ya), np.asarray(yb)):
        raise PropertyViolation("ThresholdOptimizer: predict with a fixed seed differs between containers and plain ndarrays")
    # group-label bijection: the set of rule keys is renamed and the fitted rule is equally good.  (The rules
    # themselves may differ legitimately: renaming changes the order in which groups are summed, and grid
    # points with equal objective are then tie-broken differently.)
    new_g, mapping = _bijection(g, case["shift"])
    to2 = ThresholdOptimizer(estimator=ScoreColumn(), constraints=case["constraint"], objective=case["objective"],
                             prefit=case["prefit"], predict_method="predict", grid_size=case["grid_size"], flip=case["flip"])
    to2.fit(Xr, np.asarray(y), sensitive_features=np.asarray(new_g))
    c = _interp_repr(to2.interpolated_thresholder_.interpolation_dict)
    smap = {str(v): str(mapping[M.norm(v)]) for v in M.observed_levels(g)}
    if {smap[k] for k in a} != set(c):
        raise PropertyViolation(f"ThresholdOptimizer: renaming group labels does not simply rename the rule keys: {sorted(c)} vs {sorted(smap[k] for k in a)}")
    pc = to2._pmf_predict(Xr, sensitive_features=np.asarray(new_g))
    oa = _to_objective(case, np.asarray(y), [str(v) for v in g], pa[:, 1])
    oc = _to_objective(case, np.asarray(y), [str(v) for v in new_g], pc[:, 1])
    if abs(oa - oc) > 1e-9:
        raise PropertyViolation(f"ThresholdOptimizer: renaming group labels changes the attained objective {oa!r} -> {oc!r}")
    tags = ["constraint:" + case["constraint"]]
    nd = any(k in PANDAS and p != "default" for k, p in zip(case["kinds"], case["plans"]))
    if nd:
        tags.append("nt")
    if case["kinds"][0] == "dataframe":
        tags.append("y_dataframe")
    if pk != case["kinds"][1]:
        tags.append("predict_other_container")
    return tags


def check_reduction(case):
    import fairlearn.reductions as fr

    y, g, levels = case["y"], case["g"], case["levels"]
    which = case["estimator"]

    def fit(kinds, plans, xkind):
        m = _moment(case["moment"], case.get("ratio"))
        X = _X(levels, xkind, plans[2])
        kw = {"sensitive_features": gen.wrap_vector(kinds[1], g, plans[1], name="s")}
        if which == "eg":
            est = fr.ExponentiatedGradient(ExactTable(), m, eps=0.05, max_iter=8, nu=1e-4, run_linprog_step=case["lp"])
        else:
            est = fr.GridSearch(ExactTable(), m, grid_size=case["grid_size"], constraint_weight=0.5)
        ydt = case.get("y_dtype", "int") if kinds[0] != "ndarray" or plans[0] != "default" else "int"
        yo = gen.typed_vector(kinds[0], y, plans[0], name="y", dtype=ydt)
        snap = gen.snapshot((X, yo, kw))
        est.fit(X, yo, **kw)
        if not gen.unchanged(snap, (X, yo, kw)):
            raise PropertyViolation(f"{which}.fit modified one of its arguments in place")
        return est, X

    try:
        ref, Xr = fit(["ndarray", "ndarray"], ["default"] * 3, "ndarray")
    except ValueError as e:
        if "NaN" in str(e):
            from vf.runner import Skip

            raise Skip("all signed weights cancel")
        raise
    got, Xg = fit(case["kinds"], case["plans"], case["x_kind"])
    if which == "eg":
        wa, wb = ref.weights_, got.weights_
        if list(wa.index) != list(wb.index) or not np.allclose(wa.values, wb.values, rtol=0, atol=1e-12):
            raise PropertyViolation(f"ExponentiatedGradient: weights_ differ between containers {case['kinds']}/{case['plans']} and plain ndarrays: {wb.to_dict()} vs {wa.to_dict()}")
        if not _close(ref.best_gap_, got.best_gap_, 1e-12):
            raise PropertyViolation(f"ExponentiatedGradient: best_gap_ differs: {got.best_gap_} vs {ref.best_gap_}")
        if not np.allclose(ref._pmf_predict(Xr), got._pmf_predict(Xg), rtol=0, atol=1e-12):
            raise PropertyViolation("ExponentiatedGradient: _pmf_predict differs between containers and plain ndarrays")
    else:
        la, lb = ref.lambda_vecs_, got.lambda_vecs_
        if la.shape != lb.shape or not np.allclose(la.values, lb.values, rtol=0, atol=1e-12):
            raise PropertyViolation("GridSearch: lambda_vecs_ differ between containers and plain ndarrays")
        if not np.allclose(ref.gammas_.values, got.gammas_.values, rtol=0, atol=1e-12):
            raise PropertyViolation("GridSearch: gammas_ differ between containers and plain ndarrays")
        if not np.allclose(ref.objectives_, got.objectives_, rtol=0, atol=1e-12):
            raise PropertyViolation("GridSearch: objectives_ differ between containers and plain ndarrays")
        if ref.best_idx_ != got.best_idx_:
            raise PropertyViolation(f"GridSearch: best_idx_ differs: {got.best_idx_} vs {ref.best_idx_}")
        if not np.array_equal(ref.predict(Xr), got.predict(Xg)):
            raise PropertyViolation("GridSearch: predict differs between containers and plain ndarrays")
    tags = ["estimator:" + which]
    nd = any(k in PANDAS and p != "default" for k, p in zip(case["kinds"], case["plans"]))
    if nd:
        tags.append("nt")
    return tags


# ---- strategies -----------------------------------------------------------------------------------------------------


@st.composite
def _mf_cases(draw):
    c = draw(M.mf_case(metric_keys=("lin", "selection_rate", "wmean", "count", "npfloat", "max"), allow_collisions=False,
                       max_rows=16))
    c["perm"] = list(draw(st.permutations(range(c["n"]))))
    c["shift"] = draw(st.integers(1, 3))
    return c


def _groups(draw, n, labels=None, need_both_labels=False):
    labels = labels or draw(st.sampled_from([["a", "b", "c"], [0, 1, 2], [2, 7, 5], ["x y", "", "z"], [2, 10, 33], [-1, -2, 5],
                                             [9.25, 10.0, 100.5]]))
    k = draw(st.integers(2, 3))
    g = [labels[i % k] for i in range(n)]
    return [g[i] for i in draw(st.permutations(range(n)))]


# containers for grouping columns: the vector containers plus pandas category dtype (with an unused category)
_SF_KINDS = st.sampled_from(gen.VECTOR_KINDS + ["series_categorical", "dataframe_categorical"])


@st.composite
def _named_cases(draw):
    n = draw(st.integers(3, 12))
    return {
        "y_true": draw(st.lists(st.integers(0, 1), min_size=n, max_size=n)),
        "y_pred": draw(st.lists(st.integers(0, 1), min_size=n, max_size=n)),
        "g": _groups(draw, n),
        "w": draw(st.one_of(st.none(), st.lists(st.sampled_from([1.0, 2.0, 0.5, 3.0]), min_size=n, max_size=n))),
        "kinds": [draw(gen.vector_kind), draw(gen.vector_kind), draw(_SF_KINDS), draw(gen.vector_kind)],
        "plans": [draw(gen.index_plan) for _ in range(4)],
        "perm": list(draw(st.permutations(range(n)))),
        "shift": draw(st.integers(1, 2)),
    }


MOMENT_NAMES = ["DemographicParity", "TruePositiveRateParity", "FalsePositiveRateParity", "EqualizedOdds",
                "ErrorRateParity", "ErrorRate", "BoundedGroupLoss"]


@st.composite
def _moment_cases(draw):
    n = draw(st.integers(4, 14))
    return {
        "moment": draw(st.sampled_from(MOMENT_NAMES)),
        "ratio": draw(st.sampled_from([None, None, 0.8, 0.5])),
        "y": draw(st.lists(st.integers(0, 1), min_size=n, max_size=n)),
        "g": _groups(draw, n),
        "cf": draw(st.one_of(st.none(), st.lists(st.sampled_from(["k1", "k2"]), min_size=n, max_size=n))),
        "levels": draw(st.lists(st.integers(0, 3), min_size=n, max_size=n)),
        "h": draw(st.lists(st.sampled_from([0.0, 1.0, 0.25, 0.5]), min_size=n, max_size=n)),
        "lam": draw(st.lists(st.sampled_from([0.0, 0.5, 1.0, 2.5]), min_size=3, max_size=7)),
        "kinds": [draw(gen.vector_kind), draw(st.sampled_from(gen.VECTOR_KINDS + ["ndarray_object", "series_object", "series_categorical", "dataframe_categorical"])),
                  draw(_SF_KINDS)],
        "plans": [draw(gen.index_plan) for _ in range(4)],
        "x_kind": draw(st.sampled_from(["ndarray", "dataframe"])),
        "perm": list(draw(st.permutations(range(n)))),
        "shift": draw(st.integers(1, 2)),
        "y_dtype": draw(st.sampled_from(gen.LABEL_DTYPES)),
    }


@st.composite
def _labelled_groups(draw, min_per=2, max_per=5):
    """Groups that each contain both labels."""
    labels = draw(st.sampled_from([["a", "b", "c"], [0, 1, 2], [5, 3, 9]]))
    k = draw(st.integers(2, 3))
    g, y = [], []
    for i in range(k):
        m = draw(st.integers(min_per, max_per))
        ys = [0, 1] + [draw(st.integers(0, 1)) for _ in range(m - 2)]
        g += [labels[i]] * m
        y += ys
    n = len(g)
    perm = draw(st.permutations(range(n)))
    return [g[i] for i in perm], [y[i] for i in perm]


@st.composite
def _to_cases(draw):
    g, y = draw(_labelled_groups())
    n = len(g)
    constraint = draw(st.sampled_from(["demographic_parity", "equalized_odds", "true_positive_rate_parity",
                                       "false_positive_rate_parity", "false_negative_rate_parity",
                                       "true_negative_rate_parity", "selection_rate_parity"]))
    objective = draw(st.sampled_from(["accuracy_score", "balanced_accuracy_score"]))
    return {
        "g": g, "y": y,
        "scores": draw(st.lists(st.sampled_from([0.0, 0.2, 0.4, 0.5, 0.6, 0.8, 1.0]), min_size=n, max_size=n)),
        "constraint": constraint, "objective": objective,
        "prefit": draw(st.booleans()), "flip": draw(st.booleans()),
        "grid_size": draw(st.sampled_from([3, 10, 1000])),
        "kinds": [draw(gen.vector_kind_pandas_heavy), draw(st.one_of(gen.vector_kind_pandas_heavy, _SF_KINDS))],
        "plans": [draw(gen.index_plan) for _ in range(4)],
        "x_kind": draw(st.sampled_from(["ndarray", "dataframe"])),
        "yname": draw(st.sampled_from(["lab", "y", "0", "col", "label", "score"])),
        "sname": draw(st.sampled_from(["s", "score", "label", "sensitive_feature", "score"])),
        "y_dtype": draw(st.sampled_from(gen.LABEL_DTYPES)),
        "predict_kind": draw(st.sampled_from([None, "list", "ndarray", "series", "ndarray_object", "series_object", "dataframe"])),
        "seed": draw(st.integers(0, 1000)),
        "shift": draw(st.integers(1, 2)),
    }


@st.composite
def _red_cases(draw):
    g, y = draw(_labelled_groups(min_per=3, max_per=6))
    n = len(g)
    return {
        "estimator": draw(st.sampled_from(["eg", "gs"])),
        "moment": draw(st.sampled_from(["DemographicParity", "EqualizedOdds", "TruePositiveRateParity", "ErrorRateParity"])),
        "ratio": draw(st.sampled_from([None, 0.8])),
        "g": g, "y": y,
        "levels": draw(st.lists(st.integers(0, 2), min_size=n, max_size=n)),
        "lp": draw(st.booleans()),
        "y_dtype": draw(st.sampled_from(gen.LABEL_DTYPES)),
        "grid_size": draw(st.sampled_from([4, 7])),
        "kinds": [draw(gen.vector_kind_pandas_heavy), draw(st.one_of(gen.vector_kind_pandas_heavy, _SF_KINDS))],
        "plans": [draw(gen.index_plan) for _ in range(3)],
        "x_kind": draw(st.sampled_from(["ndarray", "dataframe"])),
    }


SUBS = [
    Sub("metricframe", check_metricframe, strategy=_mf_cases, quick=300, thorough=10000, shards=16,
        floors={"nt": 0.189, "bijection_moves_labels": 0.182, "perm_nontrivial": 0.321}),
    Sub("named_metrics", check_named, strategy=_named_cases, quick=120, thorough=4000, shards=16, floors={"nt": 0.306}),
    Sub("moments", check_moment, strategy=_moment_cases, quick=300, thorough=10000, shards=16, floors={"nt": 0.277, "control": 0.175}),
    Sub("threshold_optimizer", check_threshold_optimizer, strategy=_to_cases, quick=150, thorough=4000, shards=16,
        floors={"nt": 0.188, "y_dataframe": 0.03}),
    Sub("reductions", check_reduction, strategy=_red_cases, quick=60, thorough=2000, shards=16, shrink_quick=False,
        floors={"nt": 0.1}),
    Sub("metricframe_huge_series", check_metricframe_huge_series, strategy=_huge_series_cases, quick=3, thorough=16, shards=3, shrink_quick=False),
    Sub("multi_column_renaming", check_multi_column_renaming, strategy=_multi_col_cases, quick=160, thorough=4000, shards=16,
        floors={"nt": 0.447, "long_cells": 0.262}),
]
