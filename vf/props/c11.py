"""C11 - sample weights mean multiplicity: weight k is k copies of the row.

Metamorphic oracle: f(rows, w) == f(rows with row i repeated w_i times, no weights); f(w) == f(c*w) for
c > 0; f(no weights) == f(all ones).  Applied to the base metrics, to MetricFrame per cell (by_group,
overall and every aggregate) and to the six named fairness metrics.
"""

from __future__ import annotations

import math

import numpy as np
import pandas as pd
from hypothesis import strategies as st

from vf import gen
from vf import mfcommon as M
from vf.runner import PropertyViolation, Sub

PROPERTY = "C11"
LEVEL = "exploration"
RULE = (
    "Datasets of 1..12 rows in 1..4 groups (single-member groups frequent) with positive integer weights "
    "<= 4, a positive real scale factor, binary labels/predictions (real predictions for mean_prediction); "
    "each function is evaluated on (rows, w), (rows replicated w_i times, no weights), (rows, c*w), and - when "
    "all weights are 1 - without weights. Non-trivial: weights not all equal and >= 2 groups."
)
ASSUMPTIONS = [
    "tolerance 1e-12 relative for ratios of small integer sums, 1e-9 for real scale factors",
    "NaN results (0/0 ratios) must be NaN on both sides",
]

BASE = ["true_positive_rate", "false_positive_rate", "true_negative_rate", "false_negative_rate",
        "selection_rate", "mean_prediction"]
NAMED = ["demographic_parity_difference", "demographic_parity_ratio", "equal_opportunity_difference",
         "equal_opportunity_ratio", "equalized_odds_difference", "equalized_odds_ratio"]


def _rep(values, w):
    out = []
    for v, k in zip(values, w):
        out.extend([v] * int(k))
    return out


def _same(a, b, tol):
    if np.ndim(a) != 0 or np.ndim(b) != 0:
        return False
    fa, fb = float(a), float(b)
    if math.isnan(fa) or math.isnan(fb):
        return math.isnan(fa) and math.isnan(fb)
    if math.isinf(fa) or math.isinf(fb):
        return fa == fb
    return abs(fa - fb) <= tol * max(1.0, abs(fa), abs(fb))


def _wrap(kind, v):
    return gen.wrap_vector(kind, v, "rev" if kind in ("series", "dataframe") else "default")


def check_base(case):
    import fairlearn.metrics as fm

    yt, yp, w, c = case["y_true"], case["y_pred"], case["w"], case["scale"]
    kind, wkind = case["kind"], case["w_kind"]
    tags = set()
    for name in BASE:
        if name != "mean_prediction" and not set(yp) <= {0, 1}:
            continue
        f = getattr(fm, name)
        wkind = case["w_kind"]
        if wkind in ("ndarray2d", "dataframe") and name not in ("selection_rate", "mean_prediction"):
            wkind = "ndarray"  # sklearn's confusion_matrix accepts 1-D weights only; fairlearn's own two functions flatten columns
        a = f(_wrap(kind, yt), _wrap(kind, yp), sample_weight=_wrap(wkind, w))
        if np.ndim(a) != 0:
            raise PropertyViolation(f"{name} with weights returned a non-scalar {a!r}")
        b = f(_rep(yt, w), _rep(yp, w))
        if not _same(a, b, 1e-12):
            raise PropertyViolation(f"{name}: weights {w} give {a!r} but replicating rows gives {b!r}; y_true={yt} y_pred={yp}")
        s = f(_wrap(kind, yt), _wrap(kind, yp), sample_weight=_wrap(wkind, [c * x for x in w]))
        if not _same(a, s, 1e-9):
            raise PropertyViolation(f"{name}: scaling the weights by {c} changes the result {a!r} -> {s!r}")
        if all(x == 1 for x in w):
            u = f(_wrap(kind, yt), _wrap(kind, yp))
            if not _same(a, u, 1e-12):
                raise PropertyViolation(f"{name}: all-ones weights {a!r} differ from no weights {u!r}")
        ones = f(_wrap(kind, yt), _wrap(kind, yp), sample_weight=_wrap(wkind, [1.0] * len(yt)))
        none = f(_wrap(kind, yt), _wrap(kind, yp))
        if not _same(ones, none, 1e-12):
            raise PropertyViolation(f"{name}: unit weights {ones!r} differ from omitted weights {none!r}")
    if len(set(w)) > 1:
        tags.add("nt")
    if len(yt) == 1:
        tags.add("single_weighted_row")
    if case["w_kind"] in ("ndarray2d", "dataframe") and len(set(w)) > 1:
        tags.add("column_shaped_weights")
    return sorted(tags)


def _mf(yt, yp, groups, w, metrics):
    from fairlearn.metrics import MetricFrame

    sp = None
    if w is not None:
        sp = {k: {"sample_weight": w} for k in metrics}
    return MetricFrame(metrics=metrics, y_true=yt, y_pred=yp, sensitive_features=groups, sample_params=sp)


def _cmp_frames(a, b, what, tol):
    if isinstance(a, pd.DataFrame):
        if list(a.columns) != list(b.columns) or a.index.tolist() != b.index.tolist():
            raise PropertyViolation(f"{what}: different shape/index: {a.index.tolist()} vs {b.index.tolist()}")
        for col in a.columns:
            for k in range(len(a)):
                if not _same(a[col].iloc[k], b[col].iloc[k], tol):
                    raise PropertyViolation(f"{what}[{a.index[k]!r}][{col}]: {a[col].iloc[k]!r} (weights) vs {b[col].iloc[k]!r} (replicated rows)")
    elif isinstance(a, pd.Series):
        if a.index.tolist() != b.index.tolist():
            raise PropertyViolation(f"{what}: different index")
        for k in range(len(a)):
            if not _same(a.iloc[k], b.iloc[k], tol):
                raise PropertyViolation(f"{what}[{a.index[k]!r}]: {a.iloc[k]!r} (weights) vs {b.iloc[k]!r} (replicated rows)")
    else:
        if not _same(a, b, tol):
            raise PropertyViolation(f"{what}: {a!r} (weights) vs {b!r} (replicated rows)")


def check_frame(case):
    import fairlearn.metrics as fm

    yt, yp, g, w, c = case["y_true"], case["y_pred"], case["groups"], case["w"], case["scale"]
    metrics = {k: getattr(fm, k) for k in case["metrics"]}
    A = _mf(_wrap(case["kind"], yt), _wrap(case["kind"], yp), _wrap(case["sf_kind"], g), _wrap(case["w_kind"], w), metrics)
    if case.get("reuse_params"):
        # a second frame built from the very same sample_params dict object (e.g. evaluating a second model)
        # must be weighted like the first
        from fairlearn.metrics import MetricFrame

        sp = {k: {"sample_weight": _wrap(case["w_kind"], w)} for k in metrics}
        MetricFrame(metrics=metrics, y_true=yt, y_pred=yp, sensitive_features=g, sample_params=sp)
        A = MetricFrame(metrics=metrics, y_true=yt, y_pred=yp, sensitive_features=g, sample_params=sp)
        if set(sp) != set(metrics) or any("sample_weight" not in v for v in sp.values()):
            raise PropertyViolation(f"MetricFrame modified the caller's sample_params dict: {sorted(sp)}")
    B = _mf(_rep(yt, w), _rep(yp, w), _rep(g, w), None, metrics)
    S = _mf(yt, yp, g, [c * x for x in w], metrics)
    for other, label, tol in ((B, "replicated rows", 1e-12), (S, f"weights scaled by {c}", 1e-9)):
        _cmp_frames(A.by_group, other.by_group, f"by_group vs {label}", tol)
        _cmp_frames(A.overall, other.overall, f"overall vs {label}", tol)
        _cmp_frames(A.group_min(), other.group_min(), f"group_min vs {label}", tol)
        _cmp_frames(A.group_max(), other.group_max(), f"group_max vs {label}", tol)
        for method in ("between_groups", "to_overall"):
            _cmp_frames(A.difference(method=method), other.difference(method=method), f"difference({method}) vs {label}", tol)
            _cmp_frames(A.ratio(method=method), other.ratio(method=method), f"ratio({method}) vs {label}", tol)
    O = _mf(yt, yp, g, [1.0] * len(yt), metrics)
    N = _mf(yt, yp, g, None, metrics)
    _cmp_frames(O.by_group, N.by_group, "by_group unit weights vs no weights", 1e-12)
    for col in A.by_group.columns:
        for v in A.by_group[col]:
            if np.ndim(v) != 0:
                raise PropertyViolation(f"by_group cell of {col} is not a scalar: {v!r}")
    tags = set()
    sizes = {}
    for x in g:
        sizes[M.norm(x)] = sizes.get(M.norm(x), 0) + 1
    if len(set(w)) > 1 and len(sizes) >= 2:
        tags.add("nt")
    if any(s == 1 and w[i] > 1 for i, x in enumerate(g) for s in [sizes[M.norm(x)]]):
        tags.add("single_weighted_row_group")
    return sorted(tags)


def check_named(case):
    import fairlearn.metrics as fm

    yt, yp, g, w, c = case["y_true"], case["y_pred"], case["groups"], case["w"], case["scale"]
    tags = set()
    for name in NAMED:
        f = getattr(fm, name)
        for method in ("between_groups", "to_overall"):
            aggs = ("worst_case", "mean") if name.startswith("equalized_odds") else (None,)
            for agg in aggs:
                kw = {"method": method}
                if agg:
                    kw["agg"] = agg
                a = f(_wrap(case["kind"], yt), _wrap(case["kind"], yp), sensitive_features=_wrap(case["sf_kind"], g),
                      sample_weight=_wrap(case["w_kind"], w), **kw)
                b = f(_rep(yt, w), _rep(yp, w), sensitive_features=_rep(g, w), **kw)
                if not _same(a, b, 1e-12):
                    raise PropertyViolation(f"{name}({kw}): weights {w} give {a!r}, replicated rows give {b!r}; y_true={yt} y_pred={yp} groups={g}")
                s = f(yt, yp, sensitive_features=g, sample_weight=[c * x for x in w], **kw)
                if not _same(a, s, 1e-9):
                    raise PropertyViolation(f"{name}({kw}): scaling weights by {c} changes {a!r} -> {s!r}")
                # weights normalised to mean one (the most common scaling): non-uniform positive weights whose sum is
                # exactly the number of rows - here halves of integers that sum to 2n
                last = 2 * len(yt) - sum(w[:-1])
                if last >= 1:
                    w2 = list(w[:-1]) + [float(last)]
                    full = f(yt, yp, sensitive_features=g, sample_weight=w2, **kw)
                    half = f(yt, yp, sensitive_features=g, sample_weight=[0.5 * x for x in w2], **kw)
                    if not _same(full, half, 1e-12):
                        raise PropertyViolation(f"{name}({kw}): weights {w2} give {full!r}, the same weights halved (sum = number of rows) give {half!r}")
                    if len(set(w2)) > 1:
                        tags.add("mean_one_weights")
                o = f(yt, yp, sensitive_features=g, sample_weight=[1.0] * len(yt), **kw)
                nn = f(yt, yp, sensitive_features=g, **kw)
                if not _same(o, nn, 1e-12):
                    raise PropertyViolation(f"{name}({kw}): unit weights {o!r} vs omitted weights {nn!r}")
    sizes = {}
    for x in g:
        sizes[M.norm(x)] = sizes.get(M.norm(x), 0) + 1
    if len(set(w)) > 1 and len(sizes) >= 2:
        tags.add("nt")
    if any(sizes[M.norm(x)] == 1 and w[i] > 1 for i, x in enumerate(g)):
        tags.add("single_weighted_row_group")
    return sorted(tags)


def check_large_integer_weights(case):
    """Hundreds of rows with small integer weights (weighted totals far above 255 / 65535 when scaled): weights are
    multiplicities whatever integer dtype carries them."""
    import fairlearn.metrics as fm
    from fairlearn.metrics import MetricFrame

    rs = np.random.RandomState(case["seed"])
    n = case["n"]
    yt = rs.randint(0, 2, size=n)
    yp = rs.randint(0, 2, size=n)
    g = rs.randint(0, case["groups"], size=n)
    mult = case["mult"]
    if case["w_kind"] in ("uint8", "int8", "series_uint8"):
        mult = 1  # the weights themselves must fit the dtype; their totals need not
    elif case["w_kind"] in ("int16", "uint16", "int32", "float32"):
        mult = min(mult, 1000)
    w = rs.randint(1, 5, size=n) * mult
    if case.get("offset") and case["w_kind"] in ("list", "int64", "int32", "float", "series"):
        # nearly (not exactly) uniform weights, e.g. 100001..100004: still multiplicities, to full double precision
        w = rs.randint(1, 5, size=n) + case["offset"]
    if case["w_kind"] in ("list", "int64", "int32", "float", "series"):
        wc = {"list": [int(x) for x in w], "int64": w.astype(np.int64), "int32": w.astype(np.int32), "float": w.astype(float),
              "series": pd.Series(w.astype(np.int64), index=np.arange(n)[::-1])}[case["w_kind"]]
    elif case["w_kind"] == "series_uint8":
        wc = pd.Series(w.astype(np.uint8))
    elif case["w_kind"] == "float32":
        wc = w.astype(np.float32)
    else:
        wc = w.astype(case["w_kind"])
    yp_in = yp.astype(case.get("yp_dtype", "int64"))
    metrics = {"sel": fm.selection_rate, "tpr": fm.true_positive_rate, "mp": fm.mean_prediction}
    mf = MetricFrame(metrics=metrics, y_true=yt, y_pred=yp_in, sensitive_features=g,
                     sample_params={k: {"sample_weight": wc} for k in metrics})
    wf = w.astype(float)
    # the functions called directly (no MetricFrame column storage in between)
    direct = {"sel": fm.selection_rate(yt, yp_in, sample_weight=wc), "mp": fm.mean_prediction(yt, yp_in, sample_weight=wc),
              "tpr": fm.true_positive_rate(yt, yp_in, sample_weight=wc)}
    e_sel = wf[yp == 1].sum() / wf.sum()
    e_tpr = wf[(yt == 1) & (yp == 1)].sum() / wf[yt == 1].sum() if (yt == 1).any() else 0.0
    tol = 1e-5 if case["w_kind"] == "float32" else 1e-12  # float32 weights carry float32 precision
    for nm, e in (("sel", e_sel), ("mp", e_sel), ("tpr", e_tpr)):
        if np.ndim(direct[nm]) != 0 or abs(float(direct[nm]) - e) > tol:
            raise PropertyViolation(f"{nm} called directly = {direct[nm]!r} with weights of dtype {case['w_kind']} (total {wf.sum():.0f}) and y_pred dtype {case.get('yp_dtype', 'int64')}; weighted fraction from the rows = {e!r}")
    for grp in range(case["groups"]):
        m = g == grp
        if not m.any():
            continue
        exp_sel = wf[m & (yp == 1)].sum() / wf[m].sum()
        pos = m & (yt == 1)
        exp_tpr = wf[pos & (yp == 1)].sum() / wf[pos].sum() if pos.any() else 0.0
        got = mf.by_group.loc[grp]
        for nm, e in (("sel", exp_sel), ("mp", exp_sel), ("tpr", exp_tpr)):
            if np.ndim(got[nm]) != 0 or abs(float(got[nm]) - e) > tol:
                raise PropertyViolation(f"by_group[{grp}][{nm}] = {got[nm]!r} with integer weights ({case['w_kind']}, total {wf[m].sum():.0f}); weighted fraction from the rows = {e!r}")
    d = fm.demographic_parity_difference(yt, yp_in, sensitive_features=g, sample_weight=wc)
    sels = [wf[(g == k) & (yp == 1)].sum() / wf[g == k].sum() for k in range(case["groups"]) if (g == k).any()]
    if abs(float(d) - (max(sels) - min(sels))) > tol:
        raise PropertyViolation(f"demographic_parity_difference = {d!r} with integer weights, expected {max(sels) - min(sels)!r}")
    tags = ["nt", "w:" + case["w_kind"]]
    if float(w.max()) / float(w.min()) < 1.0001:
        tags.append("nearly_uniform_weights")
    return tags


@st.composite
def _large_weight_case(draw):
    return {"n": draw(st.sampled_from([150, 300, 400, 1000])), "seed": draw(st.integers(0, 2**31 - 1)),
            "groups": draw(st.integers(1, 3)), "mult": draw(st.sampled_from([1, 1, 100, 1000, 2**50, 2**58])),  # totals beyond 2**53 and beyond 2**63 too
            "w_kind": draw(st.sampled_from(["list", "int64", "int32", "float", "series", "uint8", "int8", "int16", "uint16",
                                            "series_uint8", "float32"])),
            "yp_dtype": draw(st.sampled_from(["int64", "int64", "uint8", "int8", "int32"])),
            "offset": draw(st.sampled_from([0, 0, 10**5, 10**6]))}


@st.composite
def _case(draw, reals=False, metrics=False):
    labels = draw(st.sampled_from([["a", "b", "c", "d"], [0, 1, 2, 3], [5, 2, 9, 1]]))
    k = draw(st.sampled_from([1, 2, 2, 3, 3, 4]))
    sizes = [draw(st.sampled_from([1, 1, 2, 3])) for _ in range(k)]
    groups = []
    for lab, s in zip(labels, sizes):
        groups += [lab] * s
    n = len(groups)
    groups = [groups[i] for i in draw(st.permutations(range(n)))]
    yt = draw(st.lists(st.integers(0, 1), min_size=n, max_size=n))
    if reals and draw(st.booleans()):
        yp = draw(st.lists(st.sampled_from([0.0, 1.0, 0.5, -1.5, 2.25]), min_size=n, max_size=n))
    else:
        yp = draw(st.lists(st.integers(0, 1), min_size=n, max_size=n))
    w = draw(st.lists(gen.int_weights, min_size=n, max_size=n))
    if draw(st.integers(0, 9)) == 0:
        w = [1] * n
    case = {
        "y_true": yt, "y_pred": yp, "groups": groups, "w": [float(x) for x in w],
        "scale": draw(st.sampled_from([0.5, 2.0, 3.0, 0.1, 7.25, 1e-10, 1e6])),
        "kind": draw(st.sampled_from(["list", "ndarray", "series"])),
        "sf_kind": draw(st.sampled_from(["list", "ndarray", "series"])),
        "w_kind": draw(st.sampled_from(["list", "ndarray", "series", "ndarray2d"])),
    }
    if metrics:
        ms = draw(st.permutations(["selection_rate", "true_positive_rate", "false_positive_rate",
                                   "true_negative_rate", "false_negative_rate", "mean_prediction"]))
        case["metrics"] = list(ms[: draw(st.integers(1, 3))])
        case["reuse_params"] = draw(st.booleans())
    return case


@st.composite
def _base_case(draw):
    c = draw(_case(reals=True))
    if draw(st.integers(0, 3)) == 0:
        c["w_kind"] = draw(st.sampled_from(["ndarray2d", "dataframe"]))  # an (n, 1) column of weights
    if draw(st.integers(0, 4)) == 0:  # a single weighted row
        for k in ("y_true", "y_pred", "groups", "w"):
            c[k] = c[k][:1]
    return c


SUBS = [
    Sub("base_metrics", check_base, strategy=_base_case, quick=600, thorough=12000, shards=8,
        floors={"nt": 0.164, "single_weighted_row": 0.1}),
    Sub("metric_frame", check_frame, strategy=lambda: _case(metrics=True), quick=500, thorough=10000, shards=16,
        floors={"nt": 0.228, "single_weighted_row_group": 0.15}),
    Sub("named_metrics", check_named, strategy=_case, quick=160, thorough=5000, shards=16,
        floors={"nt": 0.25, "single_weighted_row_group": 0.15}),
    Sub("large_integer_weights", check_large_integer_weights, strategy=_large_weight_case, quick=64, thorough=800, shards=16,
        shrink_quick=False, floors={"nearly_uniform_weights": 0.08}),
]
