"""C20 - inconsistent or unsupported inputs are rejected, never silently processed.

Fault enumeration: valid random data for an entry point, then exactly one defect injected (kind, argument
position, size k, row position, container type are all drawn).  Oracle: the defective call raises an
exception (NotFittedError for predict-before-fit) while the paired valid call is accepted.
"""

from __future__ import annotations

import numpy as np
import pandas as pd
from hypothesis import strategies as st

from vf import gen
from vf.learners import ExactTable, ScoreColumn
from vf.runner import PropertyViolation, Sub

PROPERTY = "C20"
LEVEL = "fault_enumeration"
RULE = (
    "Entry points: MetricFrame (+ named/derived fairness metrics), load_data of the five parity moments, "
    "ErrorRate and BoundedGroupLoss, ExponentiatedGradient.fit, GridSearch (constructor and fit), "
    "ThresholdOptimizer fit/predict, moment constructors, and predict/transform before fit of every estimator. "
    "Each case = valid random data + one injected defect: a length off by +-k on one argument, a label outside "
    "{0,1} (2, -1, 0.5, 'a', NaN) at a drawn row, missing sensitive feature, a group lacking a label, an "
    "unsupported constraint/objective pair, control features for ThresholdOptimizer, conflicting/out-of-range "
    "bounds, costs and weights, duplicate or non-string feature names; containers drawn per argument. "
    "Non-trivial: the defect is not at the last row / k > 1 / sits in a pandas container / is a parameter fault; "
    "distinct = distinct (entry, fault, data) JSON."
)
ASSUMPTIONS = [
    "any Exception counts as rejection; only predict/transform before fit must be NotFittedError",
    "the paired valid call must be accepted, so a check that rejects everything cannot pass",
    "nothing is demanded about estimator state after a rejected fit",
    "only the rejections the property lists are demanded (e.g. negative difference_bound is not required to raise)",
]

KINDS = ["list", "ndarray", "series", "dataframe"]
BAD_LABELS = [2, -1, 0.5, "a", float("nan")]


def _expect_raise(fn, what, exc_type=Exception):
    try:
        fn()
    except exc_type:
        return
    except Exception as e:  # noqa: BLE001
        raise PropertyViolation(f"{what}: raised {type(e).__name__} ({e}) instead of {exc_type.__name__}")
    raise PropertyViolation(f"{what}: accepted silently (no exception)")


def _expect_ok(fn, what):
    try:
        return fn()
    except Exception as e:  # noqa: BLE001
        raise PropertyViolation(f"valid twin rejected - {what}: {type(e).__name__}: {e}")


def _resize(values, k):
    """Length off by k (k<0 drops |k| trailing items, k>0 repeats items)."""
    values = list(values)
    if k < 0:
        return values[:k] if -k < len(values) else values[:1]
    return values + [values[i % len(values)] for i in range(k)]


def _vec(kind, values, name=None, plan="rev"):
    return gen.wrap_vector(kind, values, plan, name=name)


def _X(n, levels, kind):
    X = np.asarray(levels, dtype=float).reshape(n, 1)
    return pd.DataFrame(X, columns=["f0"]) if kind == "dataframe" else X


# ---- MetricFrame ---------------------------------------------------------------------------------------


def _mf_args(c, fault=None):
    import fairlearn.metrics as fm

    n = len(c["y_true"])
    k = c.get("k", 1)
    yt, yp, g1, g2, w = list(c["y_true"]), list(c["y_pred"]), list(c["g1"]), list(c["g2"]), list(c["w"])
    cf = list(c["cf"])
    if fault == "len_y_pred":
        yp = _resize(yp, k)
    if fault == "len_y_true":
        yt = _resize(yt, k)
    if fault == "len_sf":
        g1, g2 = _resize(g1, k), _resize(g2, k)
    if fault == "len_sf_one_column":
        g2 = _resize(g2, k)
    if fault == "len_cf":
        cf = _resize(cf, k)
    if fault == "len_param":
        w = _resize(w, k)
    sfk = c["sf_kind"]
    two = c["two_sf"]
    names = ["s1", "s2"]
    if fault == "dup_sf_names":
        two, sfk, names = True, "dataframe_dup", ["s1", "s1"]
    if fault == "nonstring_df_name":
        sfk, names = "dataframe", [0, 1]
    if fault == "nonstring_dict_key":
        sfk, names = "dict", [0, 1]
    cols = [g1, g2] if two else [g1]
    if sfk == "dataframe_dup":
        sf = pd.DataFrame(np.array([g1, g2], dtype=object).T, columns=names)
    elif sfk == "dataframe":
        sf = pd.DataFrame({nm: col for nm, col in zip(names, cols)})
    elif sfk == "dict":
        if fault == "len_sf_one_column" or len({len(x) for x in cols}) > 1:
            sf = {nm: col for nm, col in zip(names, cols)}
        else:
            sf = {nm: (np.asarray(col) if i else col) for i, (nm, col) in enumerate(zip(names, cols))}
    elif sfk == "ndarray2d":
        if len({len(x) for x in cols}) > 1:
            sf = {nm: col for nm, col in zip(names, cols)}
        else:
            sf = np.array(cols, dtype=object).T
    elif sfk == "series":
        sf = pd.Series(g1, name=(3 if fault == "nonstring_series_name" else "s1"))
    elif sfk == "list":
        sf = g1
    else:
        sf = np.asarray(g1)
    if fault == "nonstring_series_name":
        sf = pd.Series(g1, name=3)
    kw = {
        "metrics": {"sel": fm.selection_rate, "cnt": fm.count} if c["dict_metrics"] else fm.selection_rate,
        "y_true": _vec(c["yt_kind"], yt),
        "y_pred": _vec(c["yp_kind"], yp),
        "sensitive_features": sf,
    }
    if c["with_cf"] or fault in ("len_cf", "sf_cf_same_name"):
        if fault == "sf_cf_same_name":
            kw["sensitive_features"] = pd.Series(g1, name="dup")
            kw["control_features"] = pd.Series(cf, name="dup")
        else:
            kw["control_features"] = _vec(c["cf_kind"], cf, name="c1")
    if c["with_w"] or fault == "len_param":
        wv = _vec(c["w_kind"], w)
        kw["sample_params"] = {"sel": {"sample_weight": wv}} if c["dict_metrics"] else {"sample_weight": wv}
    return kw


MF_FAULTS = ["len_y_pred", "len_y_true", "len_sf", "len_sf_one_column", "len_cf", "len_param", "dup_sf_names",
             "sf_cf_same_name", "nonstring_df_name", "nonstring_dict_key", "nonstring_series_name"]


def check_metricframe(c):
    from fairlearn.metrics import MetricFrame

    fault = c["fault"]
    _expect_ok(lambda: MetricFrame(**_mf_args(c)), "MetricFrame")
    if fault == "len_sf_one_column" and not (c["two_sf"] and c["sf_kind"] in ("dict", "dataframe", "ndarray2d")):
        fault = "len_sf"
    if fault == "len_sf_one_column" and c["sf_kind"] == "dataframe":
        fault = "len_sf"  # a DataFrame cannot hold columns of different length
    _expect_raise(lambda: MetricFrame(**_mf_args(c, fault)), f"MetricFrame with {fault} (k={c.get('k')})")
    tags = ["fault:" + fault]
    if c.get("k", 1) != 1 or "series" in (c["yt_kind"], c["yp_kind"], c["sf_kind"]) or not fault.startswith("len"):
        tags.append("nt")
    return tags


def check_named(c):
    """Named / derived fairness metrics: length faults on y, sensitive features and sample_weight."""
    import fairlearn.metrics as fm

    f = getattr(fm, c["fn"])
    n = len(c["y_true"])
    k = c["k"]

    def call(fault=None):
        yt, yp, g, w = list(c["y_true"]), list(c["y_pred"]), list(c["g1"]), list(c["w"])
        if fault == "len_y_pred":
            yp = _resize(yp, k)
        if fault == "len_sf":
            g = _resize(g, k)
        if fault == "len_weight":
            w = _resize(w, k)
        kw = {"sensitive_features": _vec(c["sf_kind"], g, name="s")}
        if c["with_w"] or fault == "len_weight":
            kw["sample_weight"] = _vec(c["w_kind"], w)
        return f(_vec(c["yt_kind"], yt), _vec(c["yp_kind"], yp), **kw)

    _expect_ok(call, c["fn"])
    _expect_raise(lambda: call(c["fault"]), f"{c['fn']} with {c['fault']} (k={k})")
    tags = ["fault:" + c["fault"], "fn:" + c["fn"]]
    if k != 1 or "series" in (c["yt_kind"], c["yp_kind"], c["sf_kind"]):
        tags.append("nt")
    return tags


# ---- moments / reductions ---------------------------------------------------------------------------------

MOMENTS = ["DemographicParity", "TruePositiveRateParity", "FalsePositiveRateParity", "EqualizedOdds",
           "ErrorRateParity", "ErrorRate", "BoundedGroupLoss"]
DATA_FAULTS = ["len_y", "len_sf", "len_cf", "bad_label", "missing_sf"]


def _moment(name):
    import fairlearn.reductions as fr

    if name == "BoundedGroupLoss":
        return fr.BoundedGroupLoss(fr.ZeroOneLoss(), upper_bound=0.5)
    return getattr(fr, name)()


def _red_data(c, fault=None):
    n = len(c["y"])
    k = c["k"]
    y, g, cf = list(c["y"]), list(c["g1"]), list(c["cf"])
    faults = set(fault) if isinstance(fault, (list, tuple, set)) else {fault}
    if "bad_label" in faults:
        y[c["pos"] % n] = BAD_LABELS[c["bad"] % len(BAD_LABELS)]
    if "len_y" in faults:
        y = _resize(y, k)
    if "len_sf" in faults:
        g = _resize(g, k)
    if "len_cf" in faults:
        cf = _resize(cf, k)
    kw = {"sensitive_features": None if "missing_sf" in faults else _vec(c["sf_kind"], g, name="s")}
    if (c["with_cf"] or "len_cf" in faults) and c["moment"] not in ("BoundedGroupLoss",) and c["entry"] != "to_fit":
        kw["control_features"] = _vec(c["cf_kind"], cf, name="c")
    return _X(n, c["levels"], c["x_kind"]), _vec(c["y_kind"], y, name="y"), kw


def _applicable(c):
    f = c["fault"]
    if f == "len_cf" and (c["moment"] == "BoundedGroupLoss" or c["entry"] == "to_fit"):
        return "len_sf"
    if f == "bad_label" and c["moment"] == "BoundedGroupLoss" and c["entry"] != "to_fit":
        return "len_y"  # regression moment: any real label is fine
    return f


def check_reduction(c):
    import fairlearn.reductions as fr
    from fairlearn.postprocessing import ThresholdOptimizer

    fault = _applicable(c)
    entry = c["entry"]

    def run(flt):
        X, y, kw = _red_data(c, flt)
        if entry == "moment":
            return _moment(c["moment"]).load_data(X, y, **kw)
        if entry == "eg":
            m = c["moment"] if c["moment"] != "ErrorRate" else "DemographicParity"
            est = ExactTable()
            if m == "BoundedGroupLoss":
                from vf.learners import ExactTableRegressor

                est = ExactTableRegressor()
            return fr.ExponentiatedGradient(est, _moment(m), max_iter=2, nu=1e-3).fit(X, y, **kw)
        if entry == "gs":
            m = c["moment"] if c["moment"] != "ErrorRate" else "EqualizedOdds"
            est = ExactTable()
            if m == "BoundedGroupLoss":
                from vf.learners import ExactTableRegressor

                est = ExactTableRegressor()
            return fr.GridSearch(est, _moment(m), grid_size=3).fit(X, y, **kw)
        if entry == "to_fit":
            return ThresholdOptimizer(estimator=ScoreColumn(), constraints=c["to_constraint"], prefit=c["prefit"],
                                      predict_method="predict").fit(X, y, **kw)
        raise ValueError(entry)

    _expect_ok(lambda: run(None), f"{entry}/{c['moment']}")
    _expect_raise(lambda: run(fault), f"{entry}/{c['moment']} with {fault} (k={c['k']}, pos={c['pos']}, bad={BAD_LABELS[c['bad'] % 5]!r}, y as {c['y_kind']}, sf as {c['sf_kind']})")
    tags = ["fault:" + fault, "entry:" + entry]
    # two problems at once are rejected too (one defect must not mask the check for the other)
    second = c.get("fault2")
    if second and second != fault:
        c2 = dict(c, fault=second)
        f2 = _applicable(c2)
        if f2 != fault:
            _expect_raise(lambda: run([fault, f2]), f"{entry}/{c['moment']} with both {fault} and {f2}")
            tags.append("two_faults")
    n = len(c["y"])
    if (fault.startswith("len") and c["k"] != 1) or (fault == "bad_label" and c["pos"] % n != n - 1) or \
            "series" in (c["y_kind"], c["sf_kind"]) or "dataframe" in (c["y_kind"], c["sf_kind"]):
        tags.append("nt")
    return tags


# ---- ThresholdOptimizer specifics ---------------------------------------------------------------------------

TO_CONSTRAINTS = ["demographic_parity", "selection_rate_parity", "false_positive_rate_parity",
                  "false_negative_rate_parity", "true_positive_rate_parity", "true_negative_rate_parity",
                  "equalized_odds"]
TO_OBJECTIVES = ["accuracy_score", "balanced_accuracy_score", "selection_rate", "true_positive_rate",
                 "true_negative_rate", "false_positive_rate", "f1_score", "", None, "roc_auc_score"]
TO_FAULTS = ["degenerate_group", "bad_combo", "bad_constraint", "control_features", "predict_len_sf", "predict_len_x",
             "estimator_none"]


def _to_supported(constraint, objective):
    simple = {"accuracy_score", "balanced_accuracy_score", "selection_rate", "true_positive_rate", "true_negative_rate"}
    if constraint == "equalized_odds":
        return objective in ("accuracy_score", "balanced_accuracy_score")
    return objective in simple


def check_to(c):
    from fairlearn.postprocessing import ThresholdOptimizer

    n = len(c["y"])
    fault = c["fault"]
    k = c["k"]

    def build(constraint="__valid__", objective="accuracy_score", estimator="score"):
        return ThresholdOptimizer(estimator=ScoreColumn() if estimator == "score" else None,
                                  constraints=c["to_constraint"] if constraint == "__valid__" else constraint,
                                  objective=objective,
                                  prefit=c["prefit"], predict_method="predict", grid_size=10)

    X = _X(n, c["scores"], c["x_kind"])
    y = _vec(c["y_kind"], c["y"], name="y")
    g = _vec(c["sf_kind"], c["g1"], name="s")
    fitted = _expect_ok(lambda: build().fit(X, y, sensitive_features=g), "ThresholdOptimizer.fit")
    _expect_ok(lambda: fitted.predict(X, sensitive_features=g, random_state=0), "ThresholdOptimizer.predict")
    tags = ["fault:" + fault]
    if fault == "degenerate_group":
        grp = c["g1"][c["pos"] % n]
        lab = c["bad"] % 2
        y2 = [lab if gi == grp else yi for gi, yi in zip(c["g1"], c["y"])]
        _expect_raise(lambda: build().fit(X, _vec(c["y_kind"], y2, name="y"), sensitive_features=g),
                      f"fit with group {grp!r} having only label {lab} ({c['to_constraint']})")
    elif fault == "bad_combo":
        cons = c["to_constraint"]
        obj = TO_OBJECTIVES[c["bad"] % len(TO_OBJECTIVES)]
        if _to_supported(cons, obj):
            _expect_ok(lambda: build(cons, obj).fit(X, y, sensitive_features=g), f"supported pair {cons}/{obj}")
            tags.append("supported_pair_accepted")
        else:
            _expect_raise(lambda: build(cons, obj).fit(X, y, sensitive_features=g), f"unsupported pair {cons}/{obj!r}")
            tags.append("nt")
    elif fault == "bad_constraint":
        cons = ["demographic", "equalised_odds", "", None, "error_rate_parity"][c["bad"] % 5]
        _expect_raise(lambda: build(cons).fit(X, y, sensitive_features=g), f"unknown constraint {cons!r}")
        tags.append("nt")
    elif fault == "control_features":
        cfv = _vec(c["cf_kind"], c["cf"], name="c")
        _expect_raise(lambda: build().fit(X, y, sensitive_features=g, control_features=cfv), "fit with control_features")
        tags.append("nt")
    elif fault == "predict_len_sf":
        g2 = _vec(c["sf_kind"], _resize(c["g1"], k), name="s")
        _expect_raise(lambda: fitted.predict(X, sensitive_features=g2, random_state=0), f"predict with sensitive_features length off by {k}")
        _expect_raise(lambda: fitted._pmf_predict(X, sensitive_features=g2), f"_pmf_predict with sensitive_features length off by {k}")
        if k != 1:
            tags.append("nt")
    elif fault == "predict_len_x":
        X2 = _X(len(_resize(c["scores"], k)), _resize(c["scores"], k), c["x_kind"])
        _expect_raise(lambda: fitted.predict(X2, sensitive_features=g, random_state=0), f"predict with X length off by {k}")
        if k != 1:
            tags.append("nt")
    elif fault == "estimator_none":
        _expect_raise(lambda: build(estimator=None).fit(X, y, sensitive_features=g), "fit with estimator=None")
        tags.append("nt")
    return tags


# ---- parameter faults ------------------------------------------------------------------------------------------

PARAM_FAULTS = ["both_bounds", "ratio_range", "bad_costs", "constraint_weight", "selection_rule",
                "non_moment_gs", "non_moment_eg"]
PARITY = ["DemographicParity", "TruePositiveRateParity", "FalsePositiveRateParity", "EqualizedOdds", "ErrorRateParity"]
BAD_COSTS = [{"fp": float("nan"), "fn": 1.0}, {"fp": 1.0, "fn": float("nan")}, {"fp": -1.0, "fn": 1.0}, {"fp": 1.0, "fn": -0.5}, {"fp": 0.0, "fn": 0.0}, {"fp": 1.0},
             {"fn": 2.0}, {"fp": 1.0, "fn": 1.0, "tp": 0.0}, {}, [1.0, 1.0], "costs"]
GOOD_COSTS = [{"fp": 1.0, "fn": 2.0}, {"fp": 0.0, "fn": 1.0}, {"fp": 0.5, "fn": 0.0}]


def check_params(c):
    import fairlearn.reductions as fr

    fault = c["fault"]
    cls = getattr(fr, PARITY[c["a"] % len(PARITY)])
    r = c["ratio"]
    d = c["diff"]
    if fault == "both_bounds":
        _expect_ok(lambda: cls(difference_bound=d), "difference_bound only")
        _expect_ok(lambda: cls(ratio_bound=r, ratio_bound_slack=d), "ratio_bound only")
        _expect_raise(lambda: cls(difference_bound=d, ratio_bound=r), f"{cls.__name__}(difference_bound={d}, ratio_bound={r})")
    elif fault == "ratio_range":
        bad = [0.0, -0.5, 1.5, 1.0000001, -1e-9, 2, 100.0, float("nan"), float("inf")][c["b"] % 9]
        _expect_ok(lambda: cls(ratio_bound=r), "valid ratio")
        _expect_ok(lambda: cls(ratio_bound=1.0), "ratio 1")
        _expect_raise(lambda: cls(ratio_bound=bad, ratio_bound_slack=d), f"{cls.__name__}(ratio_bound={bad})")
    elif fault == "bad_costs":
        bad = BAD_COSTS[c["b"] % len(BAD_COSTS)]
        _expect_ok(lambda: fr.ErrorRate(costs=GOOD_COSTS[c["a"] % len(GOOD_COSTS)]), "valid costs")
        _expect_ok(lambda: fr.ErrorRate(), "default costs")
        _expect_raise(lambda: fr.ErrorRate(costs=bad), f"ErrorRate(costs={bad!r})")
    elif fault == "constraint_weight":
        bad = [-0.1, 1.1, -1e-9, 1.0000001, 2, -5.0, float("nan"), float("inf")][c["b"] % 8]
        _expect_ok(lambda: fr.GridSearch(ExactTable(), cls(), constraint_weight=c["cw"]), "valid constraint_weight")
        _expect_raise(lambda: fr.GridSearch(ExactTable(), cls(), constraint_weight=bad), f"GridSearch(constraint_weight={bad})")
    elif fault == "selection_rule":
        bad = ["tradeoff", "", "best", None, "TRADEOFF_OPTIMIZATION"][c["b"] % 5]
        _expect_ok(lambda: fr.GridSearch(ExactTable(), cls(), selection_rule="tradeoff_optimization"), "valid rule")
        _expect_raise(lambda: fr.GridSearch(ExactTable(), cls(), selection_rule=bad), f"GridSearch(selection_rule={bad!r})")
    elif fault in ("non_moment_gs", "non_moment_eg"):
        bad = ["demographic_parity", None, 0.5, cls, object()][c["b"] % 5]
        X = np.array([[0.0], [1.0], [0.0], [1.0]])
        y = [0, 1, 1, 0]
        g = ["a", "a", "b", "b"]
        if fault == "non_moment_gs":
            _expect_raise(lambda: fr.GridSearch(ExactTable(), bad).fit(X, y, sensitive_features=g), f"GridSearch(constraints={bad!r})")
        else:
            _expect_ok(lambda: fr.ExponentiatedGradient(ExactTable(), cls(), max_iter=2, nu=1e-3).fit(X, y, sensitive_features=g), "EG valid")
            _expect_raise(lambda: fr.ExponentiatedGradient(ExactTable(), bad, max_iter=2, nu=1e-3).fit(X, y, sensitive_features=g), f"ExponentiatedGradient(constraints={bad!r}).fit")
    return ["fault:" + fault, "nt"]


# ---- predict before fit ------------------------------------------------------------------------------------------

NOTFITTED = ["eg_predict", "eg_pmf", "gs_predict", "gs_predict_proba", "to_predict", "to_pmf", "cr_transform",
             "adv_clf_predict", "adv_reg_predict", "it_predict"]


def check_notfitted(c):
    from sklearn.exceptions import NotFittedError

    import fairlearn.reductions as fr
    from fairlearn.postprocessing import ThresholdOptimizer
    from fairlearn.preprocessing import CorrelationRemover

    which = c["which"]
    n = len(c["levels"])
    X = _X(n, c["levels"], c["x_kind"])
    g = _vec(c["sf_kind"], c["g1"], name="s")
    if c.get("zero_rows") and which in ("eg_predict", "eg_pmf", "gs_predict", "gs_predict_proba"):
        X = X[:0]  # an empty batch is no reason to skip the fitted-state check
    if which == "eg_predict":
        f = lambda: fr.ExponentiatedGradient(ExactTable(), fr.DemographicParity()).predict(X)  # noqa: E731
    elif which == "eg_pmf":
        f = lambda: fr.ExponentiatedGradient(ExactTable(), fr.EqualizedOdds())._pmf_predict(X)  # noqa: E731
    elif which == "gs_predict":
        f = lambda: fr.GridSearch(ExactTable(), fr.DemographicParity()).predict(X)  # noqa: E731
    elif which == "gs_predict_proba":
        f = lambda: fr.GridSearch(ExactTable(), fr.DemographicParity()).predict_proba(X)  # noqa: E731
    elif which == "to_predict":
        f = lambda: ThresholdOptimizer(estimator=ScoreColumn(), prefit=c["prefit"]).predict(X, sensitive_features=g)  # noqa: E731
    elif which == "to_pmf":
        f = lambda: ThresholdOptimizer(estimator=ScoreColumn(), prefit=c["prefit"])._pmf_predict(X, sensitive_features=g)  # noqa: E731
    elif which == "cr_transform":
        X2 = np.column_stack([np.asarray(c["levels"], float), np.arange(n, dtype=float)])
        f = lambda: CorrelationRemover(sensitive_feature_ids=[0]).transform(X2)  # noqa: E731
    elif which == "it_predict":
        from fairlearn.postprocessing._interpolated_thresholder import InterpolatedThresholder

        f = lambda: InterpolatedThresholder(ScoreColumn(), {}, prefit=False).predict(X, sensitive_features=g)  # noqa: E731
    else:
        from fairlearn.adversarial import AdversarialFairnessClassifier, AdversarialFairnessRegressor

        cls = AdversarialFairnessClassifier if which == "adv_clf_predict" else AdversarialFairnessRegressor
        f = lambda: cls(backend="torch").predict(np.asarray(X, dtype=float))  # noqa: E731
    _expect_raise(f, f"{which} before fit", NotFittedError)
    return ["which:" + which, "nt"] + (["zero_row_batch"] if c.get("zero_rows") else [])


# ---- strategies -------------------------------------------------------------------------------------------------------


@st.composite
def _base(draw, min_n=4, max_n=10):
    n = draw(st.integers(min_n, max_n))
    # two groups, each with both labels (needed by ThresholdOptimizer); built then shuffled
    half = n // 2
    g = ["a"] * half + ["b"] * (n - half)
    y = [0, 1] + [draw(st.integers(0, 1)) for _ in range(half - 2)] + [1, 0] + [draw(st.integers(0, 1)) for _ in range(n - half - 2)]
    perm = draw(st.permutations(range(n)))
    g = [g[i] for i in perm]
    y = [y[i] for i in perm]
    glabels = draw(st.sampled_from([["a", "b"], [0, 1], [2.5, 1.5]]))
    g = [glabels[0] if v == "a" else glabels[1] for v in g]
    return {
        "y": y, "y_true": y, "g1": g,
        "y_pred": draw(st.lists(st.integers(0, 1), min_size=n, max_size=n)),
        "g2": draw(st.lists(st.sampled_from(["u", "v"]), min_size=n, max_size=n)),
        "cf": draw(st.lists(st.sampled_from(["k1", "k2"]), min_size=n, max_size=n)),
        "w": draw(st.lists(st.sampled_from([1.0, 2.0, 0.5]), min_size=n, max_size=n)),
        "levels": draw(st.lists(st.integers(0, 2), min_size=n, max_size=n)),
        "scores": draw(st.lists(st.sampled_from([0.1, 0.3, 0.5, 0.7, 0.9]), min_size=n, max_size=n)),
        "k": draw(st.sampled_from([-3, -2, -1, -1, 1, 1, 2, 3])),
        "pos": draw(st.integers(0, 50)),
        "bad": draw(st.integers(0, 50)),
        "y_kind": draw(st.sampled_from(KINDS)), "yt_kind": draw(st.sampled_from(KINDS)),
        "yp_kind": draw(st.sampled_from(KINDS)), "sf_kind": draw(st.sampled_from(KINDS)),
        "cf_kind": draw(st.sampled_from(KINDS)), "w_kind": draw(st.sampled_from(["list", "ndarray", "series"])),
        "x_kind": draw(st.sampled_from(["ndarray", "dataframe"])),
        "with_cf": draw(st.booleans()), "with_w": draw(st.booleans()),
        "prefit": draw(st.booleans()),
        "to_constraint": draw(st.sampled_from(TO_CONSTRAINTS)),
    }


@st.composite
def _mf_cases(draw):
    c = draw(_base(min_n=4))
    c["fault"] = draw(st.sampled_from(MF_FAULTS))
    c["two_sf"] = draw(st.booleans())
    c["dict_metrics"] = draw(st.booleans())
    c["sf_kind"] = draw(st.sampled_from(["dataframe", "dict", "ndarray2d"] if c["two_sf"] else
                                        ["list", "ndarray", "series", "dataframe", "dict"]))
    return c


@st.composite
def _named_cases(draw):
    c = draw(_base(min_n=4))
    c["fn"] = draw(st.sampled_from(["demographic_parity_difference", "demographic_parity_ratio",
                                    "equalized_odds_difference", "equalized_odds_ratio", "equal_opportunity_difference",
                                    "equal_opportunity_ratio", "accuracy_score_group_min", "selection_rate_difference",
                                    "false_negative_rate_ratio"]))
    c["fault"] = draw(st.sampled_from(["len_y_pred", "len_sf", "len_weight"]))
    return c


@st.composite
def _red_cases(draw):
    c = draw(_base(min_n=4))
    c["entry"] = draw(st.sampled_from(["moment", "moment", "moment", "moment", "to_fit", "to_fit", "eg", "gs"]))
    c["moment"] = draw(st.sampled_from(MOMENTS))
    c["fault"] = draw(st.sampled_from(DATA_FAULTS))
    c["fault2"] = draw(st.sampled_from([None, None] + DATA_FAULTS))
    if c["entry"] == "to_fit":
        c["levels"] = c["scores"]
    return c


@st.composite
def _to_cases(draw):
    c = draw(_base(min_n=6))
    c["fault"] = draw(st.sampled_from(TO_FAULTS))
    return c


@st.composite
def _param_cases(draw):
    return {
        "fault": draw(st.sampled_from(PARAM_FAULTS)),
        "a": draw(st.integers(0, 20)), "b": draw(st.integers(0, 40)),
        "ratio": draw(st.sampled_from([0.5, 0.8, 1.0, 0.01, 0.999])),
        "diff": draw(st.sampled_from([0.0, 0.01, 0.2, 1.0])),
        "cw": draw(st.sampled_from([0.0, 0.3, 1.0])),
    }


@st.composite
def _nf_cases(draw):
    c = draw(_base(min_n=4))
    c["which"] = draw(st.sampled_from(NOTFITTED))
    c["zero_rows"] = draw(st.booleans())
    return c


SUBS = [
    Sub("metricframe", check_metricframe, strategy=_mf_cases, quick=700, thorough=20000, shards=8, floors={"nt": 0.4}),
    Sub("named_metrics", check_named, strategy=_named_cases, quick=250, thorough=8000, shards=8, floors={"nt": 0.4}),
    Sub("reductions_data", check_reduction, strategy=_red_cases, quick=800, thorough=20000, shards=16, floors={"nt": 0.414}),
    Sub("threshold_optimizer", check_to, strategy=_to_cases, quick=350, thorough=8000, shards=8, floors={"nt": 0.322}),
    Sub("parameters", check_params, strategy=_param_cases, quick=300, thorough=3000, shards=4, floors={"nt": 0.45}),
    Sub("not_fitted", check_notfitted, strategy=_nf_cases, quick=100, thorough=1000, shards=4, floors={"nt": 0.45}),
]
