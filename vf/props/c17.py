"""C17 - adversarial fit is the documented step schedule; predict stays in label space.

Oracle: a declarative model of the documented loop (number of steps, consecutive slices, callback
invocations, n_iter_) written from the parameter documentation, compared with
  * the row batches actually fed to a user-supplied predictor module that records its training inputs
    (column 0 of X carries the row number), when the predictor is a pre-built module;
  * the callback invocations recorded by the callbacks themselves;
  * an identically configured twin trained by issuing the same slices through partial_fit: bit-equal
    parameters and _raw_predict (only when the first slice contains every class, the documented
    precondition of partial_fit);
and predict(X) against _raw_predict(X): larger label iff output >= 0.5 (binary), a label whose score is
maximal (multiclass), the raw output itself (regression); always members of the training label set.
"""

from __future__ import annotations

import numpy as np
from hypothesis import strategies as st

from vf import advcommon as AC
from vf.runner import PropertyViolation, Skip, Sub

PROPERTY = "C17"
LEVEL = "exploration"
RULE = (
    "Hypothesis draws n in 2..25 rows x 2..3 features, batch_size in {-1, 1..n+3}, epochs in {-1,1,2,3}, "
    "max_iter in {-1, 1..12} (epochs=-1 only with max_iter>0; max_iter set as attribute on the public "
    "classes or through the base-class constructor), 0..2 callbacks (bare callable or list) each with a "
    "drawn stop step and a None/False non-stop return value, shuffle=False, labels binary ints/strings, "
    "3-4 classes, reals; sensitive feature binary/multiclass/continuous; tiny predictor/adversary as "
    "keyword lists or pre-built modules (the predictor module records its training batches); the first "
    "slice is built to contain every class whenever batch_size allows. Non-trivial: (batch size not "
    "dividing n and >= 2 epochs actually started) or a callback stop strictly before the scheduled end. "
    "Distinct = distinct canonical JSON."
)
ASSUMPTIONS = [
    "training on CPU with one thread is deterministic, so twin histories must agree bit for bit",
    "a user-supplied torch module sees exactly the batch of a training step (used to observe the slices)",
    "multiclass arg-max ties: any label with maximal score is accepted",
    "known finding D17 (partial_fit re-infers the target type per batch) is excluded by region: a scheduled "
    "slice after the first whose target type differs from the whole column's",
]


def _need(ok, msg):
    if not ok:
        raise PropertyViolation(msg)


# ---- the documented schedule ----------------------------------------------------------------------------


def schedule(n, batch_size, epochs, max_iter, stops):
    """(list of (lo, hi) per step, list of (callback index, step) invocations).

    stops[i] = step at which callback i returns True (None: never)."""
    bs = n if batch_size == -1 else batch_size
    per_epoch = -(-n // bs)  # ceil(n / bs)
    total = max_iter if epochs == -1 else epochs * per_epoch
    if max_iter != -1:
        total = min(total, max_iter)
    # a callback runs after step k unless k is the step that exhausts max_iter
    def invoked(k):
        return not (max_iter != -1 and k >= max_iter)

    first_stop = None
    for s in stops:
        if s is not None and 1 <= s <= total and invoked(s):
            first_stop = s if first_stop is None else min(first_stop, s)
    final = total if first_stop is None else first_stop
    steps = []
    for k in range(1, final + 1):
        b = (k - 1) % per_epoch
        steps.append((b * bs, min((b + 1) * bs, n)))
    calls = [(i, k) for k in range(1, final + 1) if invoked(k) for i in range(len(stops))]
    return steps, calls, total, per_epoch


def _slice_type_differs(col, lo, hi):
    t = col["type"]
    v = col["v"][lo:hi]
    if t == "multi":
        return len(set(v)) < 3
    if t == "cont":
        return all(float(x).is_integer() for x in v)
    if t == "cont2":
        return all(float(x).is_integer() for r in v for x in r)
    return False


def _first_slice_complete(case, steps):
    lo, hi = steps[0]
    for col in (case["y"], case["a"]):
        if col["type"] in ("binary", "multi"):
            if len(set(col["v"][lo:hi])) < AC.n_classes(col):
                return False
        elif _slice_type_differs(col, lo, hi):
            return False
    return True


def in_d17(sub_name, case):
    try:
        stops = [cb["stop"] for cb in case["callbacks"]]
        steps, _, _, _ = schedule(case["n"], case["batch_size"], case["epochs"], case["max_iter"], stops)
        if not _first_slice_complete(case, steps):
            return False  # the twin is not attempted at all (documented precondition of partial_fit)
        return any(_slice_type_differs(col, lo, hi) for (lo, hi) in steps[1:] for col in (case["y"], case["a"]))
    except Exception:  # noqa: BLE001
        return False


# ---- estimator construction -------------------------------------------------------------------------------


def _recorder(inner):
    import torch

    class Recorder(torch.nn.Module):
        """User model that notes which rows (column 0 = row number / 8) every training step receives."""

        def __init__(self):
            super().__init__()
            self.inner = inner
            self.log = []

        def forward(self, x):
            if self.training:
                self.log.append([float(t) for t in x[:, 0]])
            return self.inner(x)

    return Recorder()


def _build(case, callbacks):
    """Estimator for the case; returns (est, recorder-or-None)."""
    from fairlearn.adversarial import AdversarialFairnessClassifier, AdversarialFairnessRegressor
    from fairlearn.adversarial._adversarial_mitigation import _AdversarialFairness

    ycol, acol = case["y"], case["a"]
    ky, ka = AC.width(ycol), AC.width(acol)
    pass_y = case["constraints"] == "equalized_odds"
    pm = AC.build_model(case["pred"], case["n_features"], ky, ycol["type"] == "binary")
    rec = None
    if case["pred"]["kind"] == "module":
        pm = rec = _recorder(pm)
    am = AC.build_model(case["adv"], ky * (2 if pass_y else 1), ka, acol["type"] == "binary")
    lr = float(case["lr"])
    kw = dict(
        backend="torch",
        predictor_model=pm,
        adversary_model=am,
        predictor_optimizer=AC.optimizer_arg(case["pred_opt"], float(case["lr_p"]), pm),
        adversary_optimizer=AC.optimizer_arg(case["adv_opt"], float(case["lr_a"]), am),
        constraints=case["constraints"],
        learning_rate=lr,
        alpha=case["alpha"],
        epochs=case["epochs"],
        batch_size=case["batch_size"],
        shuffle=False,
        callbacks=callbacks,
        random_state=case["random_state"],
    )
    if case.get("progress_updates") is not None:
        kw["progress_updates"] = case["progress_updates"]  # progress reports (printed) must not change the schedule
    if case["max_iter_via"] == "base":
        if ycol["type"] == "cont":
            kw["y_transform"] = None
        est = _AdversarialFairness(max_iter=case["max_iter"], **kw)
    else:
        cls = AdversarialFairnessRegressor if ycol["type"] == "cont" else AdversarialFairnessClassifier
        est = cls(**kw)
        if case["max_iter"] != -1 or case.get("set_default_max_iter"):
            est.max_iter = case["max_iter"]
    return est, rec


def _params(est):
    eng = est.backendEngine_
    return [p.detach().clone() for p in eng.predictor_model.parameters()] + [
        p.detach().clone() for p in eng.adversary_model.parameters()
    ]


def check(case):
    import torch

    n = case["n"]
    ycol, acol = case["y"], case["a"]
    X = np.asarray(case["X"], dtype=float)
    X[:, 0] = np.arange(n) / 8.0  # row number, exact in float32
    Xtest = np.asarray(case["Xtest"], dtype=float)
    kind = case.get("container", "ndarray")
    yv, av = AC.raw_values(ycol), AC.raw_values(acol)
    stops = [cb["stop"] for cb in case["callbacks"]]
    exp_steps, exp_calls, total, per_epoch = schedule(n, case["batch_size"], case["epochs"], case["max_iter"], stops)

    # ---- callbacks that record their invocations ----------------------------------------------------------
    calls = []
    bad_kwargs = []

    def make_cb(i, spec):
        def cb(est_, step=None, **kw):
            calls.append((i, step))
            if not hasattr(est_, "n_iter_") or est_.n_iter_ != step:
                bad_kwargs.append((i, step, getattr(est_, "n_iter_", None)))
            if spec["stop"] is not None and step == spec["stop"]:
                return True
            return None if spec["ret"] == "none" else False

        return cb

    cbs = [make_cb(i, s) for i, s in enumerate(case["callbacks"])]
    if not cbs:
        cb_arg = None if case.get("cb_none", True) else []
    elif len(cbs) == 1 and case.get("cb_bare"):
        cb_arg = cbs[0]
    else:
        cb_arg = cbs

    est, rec = _build(case, cb_arg)
    try:
        import contextlib
        import io

        with contextlib.redirect_stdout(io.StringIO()):  # progress reports are printed
            if case.get("warm_refit"):
                # a warm-started estimator is fitted a second time: the second fit runs the documented schedule again
                # (steps and callbacks numbered from 1), continuing from the trained networks
                est.warm_start = True
                est.fit(X, AC.wrap(yv, kind), sensitive_features=AC.wrap(av, kind))
                del calls[:], bad_kwargs[:]
                if rec is not None:
                    del rec.log[:]
            ret = est.fit(X, AC.wrap(yv, kind), sensitive_features=AC.wrap(av, kind))
    except RuntimeError as e:
        if "between 0 and 1" in str(e):
            # SGD blew up (NaN weights -> NaN sigmoid output rejected by torch's BCELoss): not a schedule matter
            raise Skip("training diverged: non-finite sigmoid output") from e
        raise
    _need(ret is est, "fit did not return the estimator")

    # ---- schedule ---------------------------------------------------------------------------------------------
    _need(getattr(est, "n_iter_", None) == len(exp_steps),
          f"n_iter_ = {getattr(est, 'n_iter_', None)!r}, documented schedule has {len(exp_steps)} steps "
          f"(n={n}, batch_size={case['batch_size']}, epochs={case['epochs']}, max_iter={case['max_iter']}, stops={stops})")
    _need(calls == exp_calls,
          f"callback invocations (callback, step) = {calls}, documented = {exp_calls} "
          f"(n={n}, batch_size={case['batch_size']}, epochs={case['epochs']}, max_iter={case['max_iter']}, stops={stops})")
    _need(not bad_kwargs, f"callback saw step != n_iter_: {bad_kwargs[:3]}")
    if rec is not None:
        got = [[int(round(v * 8)) for v in rows] for rows in rec.log]
        exp = [list(range(lo, hi)) for lo, hi in exp_steps]
        _need(got == exp, f"row batches fed to the predictor {got} != documented consecutive slices {exp}")

    tags = []
    # ---- twin through partial_fit ---------------------------------------------------------------------------
    raw = est._raw_predict(Xtest)
    if _first_slice_complete(case, exp_steps):
        twin, _ = _build(case, None)
        for k, (lo, hi) in enumerate(list(exp_steps) * (2 if case.get("warm_refit") else 1)):
            kw = {}
            if (k == 0 or case.get("classes_every_call")) and case.get("pass_classes") and ycol["type"] != "cont":
                kw["classes"] = np.asarray(sorted(AC.LABELS[ycol["enc"]]))
            twin.partial_fit(X[lo:hi], AC.wrap(yv[lo:hi], kind), sensitive_features=AC.wrap(av[lo:hi], kind), **kw)
        pa, pb = _params(est), _params(twin)
        _need(len(pa) == len(pb), "twin has a different number of parameter tensors")
        for i, (a, b) in enumerate(zip(pa, pb)):
            same = a.shape == b.shape and torch.equal(torch.isnan(a), torch.isnan(b)) and torch.equal(
                torch.nan_to_num(a, nan=0.0), torch.nan_to_num(b, nan=0.0))  # a diverged run must diverge identically
            if not same:
                dev = float((a.double() - b.double()).abs().max()) if a.shape == b.shape else None
                raise PropertyViolation(
                    f"fit and the same {len(exp_steps)} slices through partial_fit give different parameters "
                    f"(tensor {i}, max dev {dev!r}); slices {exp_steps[:6]}...")
        raw_t = twin._raw_predict(Xtest)
        _need(np.array_equal(raw, raw_t, equal_nan=True), "_raw_predict differs between fit and the partial_fit twin")
        tags.append("twin")

    # ---- predict ------------------------------------------------------------------------------------------------
    m = Xtest.shape[0]
    pred = est.predict(Xtest)
    _need(isinstance(raw, np.ndarray) and raw.ndim == 2 and raw.shape[0] == m, f"_raw_predict shape {getattr(raw, 'shape', None)}")
    _need(isinstance(pred, np.ndarray) and pred.shape == (m,), f"predict returned shape {getattr(pred, 'shape', None)}, expected ({m},)")
    t = ycol["type"]
    tie = False
    diverged = not all(bool(torch.isfinite(p).all()) for p in _params(est))
    if diverged:
        tags.append("diverged")  # SGD blew up on this data: nothing to say about predict
    elif t == "cont":
        _need(raw.shape == (m, 1) and np.array_equal(pred, raw.reshape(-1)), "regression predict != raw predictor output")
    else:
        labs = sorted(AC.LABELS[ycol["enc"]])
        train = set(yv)
        for i in range(m):
            p = pred[i].item() if hasattr(pred[i], "item") else pred[i]
            _need(p in train, f"predict returned {p!r}, not a training label {sorted(train)}")
            if t == "binary":
                _need(raw.shape == (m, 1), f"binary raw output shape {raw.shape}")
                r = float(raw[i, 0])
                want = labs[1] if r >= 0.5 else labs[0]
                tie = tie or r == 0.5
                _need(p == want, f"predict = {p!r} for predictor output {r!r}; documented: {labs[1]!r} iff output >= 0.5")
            else:
                _need(raw.shape == (m, len(labs)), f"multiclass raw output shape {raw.shape}")
                row = raw[i]
                best = {labs[j] for j in range(len(labs)) if row[j] == row.max()}
                _need(p in best, f"predict = {p!r}, arg-max label(s) {sorted(best)} for scores {row.tolist()}")

    # ---- classes --------------------------------------------------------------------------------------------------
    bs = n if case["batch_size"] == -1 else case["batch_size"]
    ragged = n % bs != 0 and len(exp_steps) > per_epoch
    cb_stop = len(exp_steps) < total
    if ragged or cb_stop:
        tags.append("nt")
    if ragged:
        tags.append("ragged_multi_epoch")
    if cb_stop:
        tags.append("callback_stop")
    if case["max_iter"] != -1 and len(exp_steps) == case["max_iter"]:
        tags.append("max_iter_exhausted")
    if case["epochs"] == -1:
        tags.append("epochs-1")
    if case.get("plateau") and len(exp_steps) >= 3:
        tags.append("plateau>=3_steps")
    if case.get("warm_refit"):
        tags.append("warm_started_second_fit")
    if case["batch_size"] == -1 or bs >= n:
        tags.append("one_batch")
    if bs == 1:
        tags.append("bs1")
    if rec is not None:
        tags.append("recorded")
    if len(case["callbacks"]) == 2:
        tags.append("two_callbacks")
    if tie:
        tags.append("tie_at_threshold")
    tags.append("y_" + t)
    if case["max_iter_via"] == "base":
        tags.append("base_class")
    return tags


# ---- strategy ----------------------------------------------------------------------------------------------------


@st.composite
def _cases(draw):
    ytype = draw(st.sampled_from(["binary", "binary", "binary", "multi", "cont"]))
    atype = draw(st.sampled_from(["binary", "binary", "multi", "cont"]))
    kmin = 4 if "multi" in (ytype, atype) else 2
    n = draw(st.one_of(st.integers(kmin, 8), st.integers(kmin, 25)))
    lo_bs = 1
    if "multi" in (ytype, atype) and draw(st.integers(0, 3)) > 0:
        lo_bs = 4  # mostly geometries where the first slice can hold every class
    mode = draw(st.sampled_from(["whole", "over", "divides", "ragged", "ragged", "ragged", "ragged", "any", "any"]))
    # plateau: learning rates too small to change any float32 weight and the same rows in every step, so consecutive
    # steps see identical losses - the schedule still runs to its end
    plateau = draw(st.integers(0, 6)) == 0
    if plateau:
        mode = draw(st.sampled_from(["whole", "over"]))
    ragged = [b for b in range(lo_bs, n) if n % b != 0]
    divides = [b for b in range(lo_bs, n) if n % b == 0]
    if mode == "ragged" and ragged:
        bs = draw(st.sampled_from(ragged))
    elif mode == "divides" and divides:
        bs = draw(st.sampled_from(divides))
    elif mode == "whole":
        bs = -1
    elif mode == "over":
        bs = draw(st.integers(n, n + 3))
    else:
        bs = draw(st.integers(lo_bs, n))
    ebs = n if bs == -1 else bs
    per_epoch = -(-n // ebs)
    max_iter = draw(st.sampled_from([-1] * 8 + list(range(1, 13))))
    epochs = draw(st.sampled_from([1, 2, 2, 3, 3] + ([-1] if max_iter != -1 else [])))
    if plateau and epochs != -1:
        epochs = draw(st.sampled_from([3, 4, 6]))
    total = max_iter if epochs == -1 else epochs * per_epoch
    if max_iter != -1:
        total = min(total, max_iter)
    ncb = draw(st.sampled_from([0, 1, 1, 2, 2]))
    cbs = []
    for _ in range(ncb):
        stop = draw(st.one_of(st.none(), st.integers(1, total + 1), st.integers(1, max(1, min(total, 4)))))
        cbs.append({"stop": stop, "ret": draw(st.sampled_from(["none", "false"]))})

    # slices of one epoch, columns built slice by slice
    sizes = [min(ebs, n - lo) for lo in range(0, n, ebs)]

    def col(typ):
        c = draw(AC.column(typ, [n]))  # first: one batch holding every class, then re-arranged per slice
        if typ in ("binary", "multi"):
            k = AC.n_classes(c)
            v = []
            for si, sz in enumerate(sizes):
                if si == 0 and sz >= k:
                    need = list(range(k))
                elif typ == "multi" and sz >= 3:
                    need = list(draw(st.permutations(range(k))))[:3]
                else:
                    need = []
                part = need + [draw(st.integers(0, k - 1)) for _ in range(sz - len(need))]
                v.extend(draw(st.permutations(part)))
            # the whole column must contain every class (fit needs them)
            v = list(v)
            if any(c_ not in v for c_ in range(k)):
                v[:k] = list(draw(st.permutations(range(k))))
            c["v"] = v
        else:
            v = []
            natural = draw(st.integers(0, 9)) == 0
            for sz in sizes:
                part = [draw(st.integers(-30, 30)) / 10.0 for _ in range(sz)]
                if not natural and all(float(x).is_integer() for x in part):
                    part[draw(st.integers(0, sz - 1))] = draw(st.sampled_from([0.5, -1.5, 0.3, 2.7]))
                v.extend(part)
            if all(float(x).is_integer() for x in v):
                v[0] = 0.5
            c["v"] = v
        return c

    y, a = col(ytype), col(atype)
    nf = draw(st.integers(2, 3))
    cell = st.integers(-20, 20).map(lambda t: t / 10.0)
    X = [[draw(cell) for _ in range(nf)] for _ in range(n)]
    tie_mode = ytype == "binary" and draw(st.integers(0, 3)) == 0
    if tie_mode:
        pred = {"kind": "module", "hidden": [draw(st.integers(1, 3))] if draw(st.booleans()) else [],
                "acts": [], "seed": draw(st.integers(0, 10**6)), "bias": False}
        pred["acts"] = [draw(st.sampled_from([None, "leaky_relu", "relu", "tanh_instance"])) for _ in pred["hidden"]]
    else:
        pred = draw(AC.model_spec(max_hidden=1, max_width=3))
    adv = draw(AC.model_spec(max_hidden=1, max_width=3))
    mtest = draw(st.integers(1, 4))
    Xtest = [[draw(cell) for _ in range(nf)] for _ in range(mtest)]
    if tie_mode or draw(st.booleans()):
        Xtest[0] = [0.0] * nf

    def opt(spec):
        kinds = ["str", "callable"] + (["instance"] if spec["kind"] == "module" else [])
        return draw(st.sampled_from(kinds))

    lrs = st.sampled_from([0.001, 0.005, 0.01, 0.02, 0.05]) if not plateau else st.sampled_from([1e-9, 1e-12])
    return {
        "plateau": plateau,
        "n": n, "n_features": nf, "X": X, "Xtest": Xtest, "y": y, "a": a,
        "batch_size": bs, "epochs": epochs, "max_iter": max_iter,
        "max_iter_via": draw(st.sampled_from(["attr", "attr", "base"])),
        "set_default_max_iter": draw(st.booleans()),
        "callbacks": cbs, "cb_bare": draw(st.booleans()), "cb_none": draw(st.booleans()),
        "pred": pred, "adv": adv, "pred_opt": opt(pred), "adv_opt": opt(adv),
        "lr": draw(lrs), "lr_p": draw(lrs), "lr_a": draw(lrs),
        "alpha": draw(st.sampled_from([0.0, 0.5, 1.0, 2.0])),
        "constraints": draw(st.sampled_from(["demographic_parity", "equalized_odds"])),
        "random_state": draw(st.integers(0, 1000)),
        "container": draw(st.sampled_from(["ndarray", "ndarray", "list", "series"])),
        "pass_classes": draw(st.booleans()),
        "classes_every_call": draw(st.booleans()),
        "progress_updates": draw(st.sampled_from([None, None, 1e-9, 1e-7, 0.5])),
        "warm_refit": draw(st.integers(0, 4)) == 0,
    }


REGIONS = {"D17": in_d17}

_D17_PROBE = {
    "n": 5, "n_features": 2, "X": [[0.0, 1.0], [0.0, -1.0], [0.0, 0.5], [0.0, 2.0], [0.0, -0.5]],
    "Xtest": [[0.0, 0.0], [1.0, 1.0]],
    "y": {"type": "multi", "enc": "m012", "v": [0, 1, 2, 1, 0]},
    "a": {"type": "binary", "enc": "b01", "v": [0, 1, 1, 0, 1]},
    "batch_size": 3, "epochs": 1, "max_iter": -1, "max_iter_via": "attr", "set_default_max_iter": False,
    "callbacks": [], "cb_bare": False, "cb_none": True,
    "pred": {"kind": "list", "hidden": [], "acts": []}, "adv": {"kind": "list", "hidden": [], "acts": []},
    "pred_opt": "str", "adv_opt": "str", "lr": 0.1, "lr_p": 0.1, "lr_a": 0.1, "alpha": 1.0,
    "constraints": "demographic_parity", "random_state": 1, "container": "ndarray", "pass_classes": False,
}
_D17_PROBE_REG = dict(
    _D17_PROBE,
    y={"type": "cont", "v": [0.5, 1.5, -0.3, 1.0, 2.0]},
)
PROBES = {"D17": [("schedule", _D17_PROBE), ("schedule", _D17_PROBE_REG)]}

SUBS = [
    Sub("schedule", check, strategy=_cases, quick=400, thorough=10000, shards=16, shrink_quick=False,
        floors={"nt": 0.247, "ragged_multi_epoch": 0.085, "callback_stop": 0.1, "twin": 0.41, "recorded": 0.15,
                "max_iter_exhausted": 0.05, "two_callbacks": 0.15, "tie_at_threshold": 0.03, "y_multi": 0.048,
                "y_cont": 0.078, "bs1": 0.02, "base_class": 0.121}),
]
