"""C18 - bootstrap intervals are reproducible, ordered and shaped like the estimates.

Oracle: shape/type/index relations with the point estimates, monotonicity in the quantile, determinism for
an integer seed, and statistical consequences of "n rows drawn with replacement" whose failure probability
on a correct implementation is below 1e-15 per case (see ASSUMPTIONS).
"""

from __future__ import annotations

import math

import numpy as np
import pandas as pd
from hypothesis import strategies as st

from vf import gen
from vf import mfcommon as M
from vf.runner import PropertyViolation, Sub

PROPERTY = "C18"
LEVEL = "exploration"
RULE = (
    "C01-style datasets (cell-by-cell grouping tables incl. control features, all containers) with "
    "callable/dict metrics from {selection_rate, count, weighted accuracy, row-constant metric}, n_boot in "
    "{1,2,5,30,200}, 1..4 quantiles in (0,1) in arbitrary order, integer seeds; plus a 'width' sub-check on "
    "datasets with n >= 12 and selection rate in [0.25,0.75] at n_boot = 200. Non-trivial: >= 2 groups and a "
    "metric that varies over the rows."
)
ASSUMPTIONS = [
    "index equality with the point estimate is demanded only where the probability that some observed level "
    "is missing from every resample is < 1e-15 (one grouping column: n_boot >= 200 with every group >= 1 row "
    "gives (1-1/24)^(24*200) ~ 1e-88... computed per case as sum over cells of (1-size/n)^(n*n_boot) < 1e-15); "
    "otherwise only 'subset of the point estimate's index'",
    "width/bracketing: n >= 12, overall selection rate k/n in [0.25, 0.75], n_boot = 200, quantiles 0.02/0.98: "
    "P(2 % quantile > point) = P(fewer than 4 of 200 resamples have count <= k) < 1e-30 since "
    "P(Bin(n,k/n) <= k) >= 0.5; all-equal resamples have probability < 1e-60",
    "two constructions with the same integer random_state must agree bit for bit",
]


def _kwargs(case):
    kw = M.build_metricframe_kwargs(case)
    kw["n_boot"] = case["n_boot"]
    qk = case.get("q_kind", "list")
    kw["ci_quantiles"] = (list(case["quantiles"]) if qk == "list" else tuple(case["quantiles"]) if qk == "tuple"
                          else np.asarray(case["quantiles"], dtype=float))
    kw["random_state"] = case["seed"]
    return kw


def _flat(obj):
    """(index keys, column names, 2-d float array) of a scalar / Series / DataFrame."""
    if isinstance(obj, pd.DataFrame):
        return M.index_keys(obj.index), list(obj.columns), obj.to_numpy(dtype=float)
    if isinstance(obj, pd.Series):
        return M.index_keys(obj.index), [obj.name], obj.to_numpy(dtype=float).reshape(-1, 1)
    M.need(np.ndim(obj) == 0, f"expected a scalar, got {type(obj).__name__}: {obj!r}")
    return [()], [None], np.array([[float(obj)]])


def _metric_values(obj, j, mode):
    """1-d float array of the values of metric j inside a result object."""
    if isinstance(obj, pd.DataFrame):
        return obj.iloc[:, j].to_numpy(dtype=float)
    if isinstance(obj, pd.Series):
        if mode == "dict":  # indexed by metric name
            return np.array([float(obj.iloc[j])])
        return obj.to_numpy(dtype=float)
    return np.array([float(obj)])


def _same_kind(entry, point, what):
    if isinstance(point, pd.DataFrame):
        M.need(isinstance(entry, pd.DataFrame), f"{what}: entry is {type(entry).__name__}, point estimate is a DataFrame")
        M.need(list(entry.columns) == list(point.columns), f"{what}: columns {list(entry.columns)} != {list(point.columns)}")
    elif isinstance(point, pd.Series):
        M.need(isinstance(entry, pd.Series), f"{what}: entry is {type(entry).__name__}, point estimate is a Series")
    else:
        M.need(np.ndim(entry) == 0, f"{what}: entry is not a scalar like the point estimate: {entry!r}")


def _identical(a, b):
    ka, ca, va = _flat(a)
    kb, cb, vb = _flat(b)
    return ka == kb and ca == cb and va.shape == vb.shape and np.array_equal(va, vb, equal_nan=True)


def _results(mf):
    out = {
        "overall": (mf.overall, mf.overall_ci),
        "by_group": (mf.by_group, mf.by_group_ci),
        "group_min": (mf.group_min(), mf.group_min_ci()),
        "group_max": (mf.group_max(), mf.group_max_ci()),
    }
    for m in ("between_groups", "to_overall"):
        out[f"difference:{m}"] = (mf.difference(method=m), mf.difference_ci(method=m))
        out[f"ratio:{m}"] = (mf.ratio(method=m), mf.ratio_ci(method=m))
    return out


def check(case):
    from fairlearn.metrics import MetricFrame

    from vf import gen

    g0 = gen.global_state()
    kw1 = _kwargs(case)
    snap = gen.snapshot(kw1)
    mf = MetricFrame(**kw1)
    M.need(gen.global_state() == g0, "MetricFrame(random_state=<int>) changed process-global state (numpy global RNG / error state / warnings filters)")
    M.need(gen.unchanged(snap, kw1), "MetricFrame modified one of its arguments in place")
    mf2 = MetricFrame(**_kwargs(case))
    qs = case["quantiles"]
    n = case["n"]
    n_boot = case["n_boot"]
    items = case["metrics"]
    names = [it["name"] for it in items]
    has_cf = bool(case.get("cf"))
    res, res2 = _results(mf), _results(mf2)
    order = sorted(range(len(qs)), key=lambda i: qs[i])

    # probability that some occupied by_group cell level is absent from every resample
    group_cols = (case["cf"]["cols"] if has_cf else []) + case["sf"]["cols"]
    single_col = len(group_cols) == 1
    masks = M.cell_masks(group_cols)
    p_missing = 0.0
    for col in group_cols:
        for lev in M.observed_levels(col):
            size = sum(1 for v in col if M.norm(v) == M.norm(lev))
            p_missing += (1 - size / n) ** (n * n_boot)
    index_must_match = p_missing < 1e-15 and (single_col or n_boot >= 200)

    for name, (point, ci) in res.items():
        M.need(isinstance(ci, list) and len(ci) == len(qs), f"{name}_ci has {len(ci) if isinstance(ci, list) else type(ci)} entries for {len(qs)} quantiles")
        pk, pc, pv = _flat(point)
        flats = []
        for qi, entry in enumerate(ci):
            _same_kind(entry, point, f"{name}_ci[{qi}]")
            ek, ec, ev = _flat(entry)
            M.need(len(set(ek)) == len(ek), f"{name}_ci[{qi}] has duplicate index entries")
            M.need(set(ek) <= set(pk), f"{name}_ci[{qi}] index {ek} is not a subset of the point estimate's {pk}")
            if index_must_match:
                M.need(set(ek) == set(pk), f"{name}_ci[{qi}] index {ek} != point estimate's {pk} (n_boot={n_boot})")
            flats.append((ek, ev))
            M.need(_identical(entry, res2[name][1][qi]), f"{name}_ci[{qi}] differs between two constructions with random_state={case['seed']}")
        # monotone in the quantile
        for a, b in zip(order, order[1:]):
            (ka, va), (kb, vb) = flats[a], flats[b]
            M.need(ka == kb, f"{name}_ci entries for quantiles {qs[a]} and {qs[b]} have different indices")
            bad = (va > vb + 1e-12) & ~np.isnan(va) & ~np.isnan(vb)
            M.need(not bad.any(), f"{name}_ci not non-decreasing in the quantile: q={qs[a]} -> {va.tolist()}, q={qs[b]} -> {vb.tolist()}")
            M.need(np.array_equal(np.isnan(va), np.isnan(vb)), f"{name}_ci NaN pattern differs between quantiles {qs[a]} and {qs[b]}")

    # row counts and row-constant metrics
    for j, it in enumerate(items):
        if it["func"] == "count" and not has_cf:
            for qi, entry in enumerate(mf.overall_ci):
                v = _metric_values(entry, j, case["mode"])[0]
                M.need(float(v) == n, f"overall_ci[{qi}] of count is {v!r}: a resample does not have n={n} rows")
        if it["func"] == "count" and has_cf:
            for qi, entry in enumerate(mf.overall_ci):
                col = _metric_values(entry, j, case["mode"])
                # quantiles of per-stratum counts need not add up to n, but each is within [0, n]
                M.need(np.all(np.isnan(col)) or np.nanmax(col) <= n, f"count of a control stratum exceeds n in overall_ci[{qi}]: {col!r}")
        if it["func"] == "const":
            for name in ("overall", "by_group", "group_min", "group_max"):
                point, ci = res[name]
                pk, pc, pv = _flat(point)
                for qi, entry in enumerate(ci):
                    col = _metric_values(entry, j, case["mode"])
                    ok = np.isnan(col) | (np.abs(col - 3.5) < 1e-12)
                    M.need(ok.all(), f"{name}_ci[{qi}] of a row-constant metric is {col.tolist()}, expected 3.5 (or NaN for undrawn cells)")
            for m in ("between_groups", "to_overall"):
                for qi, entry in enumerate(res[f"difference:{m}"][1]):
                    col = _metric_values(entry, j, case["mode"])
                    M.need((np.isnan(col) | (np.abs(col) < 1e-12)).all(), f"difference_ci({m})[{qi}] of a row-constant metric is {col.tolist()}")

    occupied = sum(1 for m in masks.values() if m.sum() > 0)
    varies = any(it["func"] != "const" for it in items) and (len(set(case["y_pred"])) > 1)
    tags = set()
    if occupied >= 2 and varies:
        tags.add("nt")
    if has_cf:
        tags.add("control")
    if case["mode"] == "dict":
        tags.add("dict")
    if index_must_match:
        tags.add("index_equality_checked")
    if len(qs) >= 2:
        tags.add("quantiles>=2")
    tags.add(f"n_boot={n_boot}")
    return sorted(tags)


def check_width(case):
    """Wide quantile pair around the resampling mean has positive width and brackets the estimate."""
    from fairlearn.metrics import MetricFrame, count, selection_rate

    yp = case["y_pred"]
    n = len(yp)
    g = case["groups"]
    mf = MetricFrame(metrics={"sel": selection_rate, "cnt": count}, y_true=[0] * n, y_pred=gen.wrap_vector(case["kind"], yp, "rev"),
                     sensitive_features=g, n_boot=200, ci_quantiles=[0.02, 0.98], random_state=case["seed"])
    lo, hi = mf.overall_ci
    p = float(mf.overall["sel"])
    M.need(abs(p - sum(yp) / n) < 1e-12, "overall selection rate wrong")
    M.need(float(lo["sel"]) < float(hi["sel"]), f"(0.02, 0.98) interval of the selection rate has no width: [{lo['sel']}, {hi['sel']}]: the resamples do not differ")
    M.need(float(lo["sel"]) <= p <= float(hi["sel"]), f"interval [{lo['sel']}, {hi['sel']}] does not contain the point estimate {p}")
    M.need(float(lo["cnt"]) == n and float(hi["cnt"]) == n, f"resample size is not n={n}: count quantiles {lo['cnt']}, {hi['cnt']}")
    # resamples are of the whole data: group sizes vary between resamples for groups smaller than n
    glo, ghi = mf.by_group_ci
    sizes = {}
    for x in g:
        sizes[x] = sizes.get(x, 0) + 1
    if len(sizes) >= 2 and min(sizes.values()) >= 3:
        M.need((ghi["cnt"] - glo["cnt"]).max() > 0, f"group sizes never vary across resamples: {glo['cnt'].tolist()} {ghi['cnt'].tolist()}")
    # a with-replacement resample of n >= 12 distinct rows repeats some row with prob 1 - n!/n^n > 0.999;
    # the per-group maximum count over 200 resamples exceeding the group's size shows replacement
    if len(sizes) >= 2:
        over = [float(ghi["cnt"][k]) > sizes[k] for k in sizes]
        M.need(any(over), f"0.98 quantile of group sizes never exceeds the actual group size {sizes}: rows are not drawn with replacement")
    return ["nt"] if len(sizes) >= 2 else []


def check_uniform_draws(case):
    """Every resample draws n rows uniformly from the n data rows - whatever per-sample parameters (e.g. strongly
    skewed sample weights) the metrics receive.  Under uniform draws the size of a group in one resample is
    Binomial(n, n_g / n) and the unweighted selection rate a mean of n Bernoulli draws, so (Hoeffding, union bound
    over the n_boot resamples, groups and two sides, total failure probability <= 1e-12 per case) every quantile of
    them lies within t = sqrt(n/2 * ln(2 * n_boot * (G + 1) / 1e-12)) of its expectation."""
    import fairlearn.metrics as fm
    from fairlearn.metrics import MetricFrame

    rs = np.random.RandomState(case["seed"])
    n, G, n_boot = case["n"], case["groups"], case["n_boot"]
    g = np.arange(n) % G
    rs.shuffle(g)
    yp = (rs.rand(n) < 0.5).astype(int)
    yt = (rs.rand(n) < 0.5).astype(int)
    if case["skew_by"] == "group":
        w = np.where(g == case["heavy"] % G, float(case["skew"]), 1.0)
    else:
        w = np.where(yp == 1, float(case["skew"]), 1.0)
    w = w * rs.uniform(0.9, 1.1, size=n)
    weighted = {"selection_rate": fm.selection_rate, "mean_prediction": fm.mean_prediction,
                "true_positive_rate": fm.true_positive_rate, "wmean": M.m_wmean}
    metrics = {"cnt": fm.count, "sel": fm.selection_rate}
    sp = {}
    for i, name in enumerate(case["weighted"]):
        metrics[f"w{i}"] = weighted[name]
        sp[f"w{i}"] = {"sample_weight": gen.wrap_vector(case["w_kind"], w.tolist(), "default")}
    mf = MetricFrame(metrics=metrics, y_true=yt, y_pred=yp, sensitive_features=pd.Series(g, name="sf"), sample_params=sp or None,
                     n_boot=n_boot, ci_quantiles=list(case["quantiles"]), random_state=case["mf_seed"])
    t = math.sqrt(n / 2.0 * math.log(2.0 * n_boot * (G + 1) / 1e-12))
    sizes = {k: int((g == k).sum()) for k in range(G)}
    p = float(yp.mean())
    for qi, (ov, bg) in enumerate(zip(mf.overall_ci, mf.by_group_ci)):
        M.need(float(ov["cnt"]) == n, f"overall_ci[{qi}] count {ov['cnt']!r} != n={n}")
        M.need(abs(float(ov["sel"]) - p) * n <= t,
               f"overall_ci[{qi}] of the unweighted selection rate is {float(ov['sel'])!r}; data rate {p!r}, n={n}: off by more than the "
               f"Hoeffding bound {t / n:.3f} for uniform draws (sample weights skewed {case['skew']}x by {case['skew_by']})")
        for k in range(G):
            c = float(bg.loc[k, "cnt"])
            M.need(abs(c - sizes[k]) <= t,
                   f"by_group_ci[{qi}] size of group {k} is {c!r}; the group has {sizes[k]} of n={n} rows: off by more than the Hoeffding "
                   f"bound {t:.1f} for uniform draws (sample weights skewed {case['skew']}x by {case['skew_by']})")
    tags = ["nt"] if case["weighted"] else []
    if case["weighted"]:
        tags.append("skewed_sample_weight_present")
    return tags


@st.composite
def _uniform_case(draw):
    return {"n": draw(st.sampled_from([200, 300, 400])), "groups": draw(st.integers(2, 3)), "n_boot": draw(st.sampled_from([3, 10, 25])),
            "quantiles": draw(st.sampled_from([[0.5], [0.1, 0.9], [0.05, 0.5, 0.95]])), "seed": draw(st.integers(0, 2**31 - 1)),
            "mf_seed": draw(st.integers(0, 2**31 - 1)), "skew": draw(st.sampled_from([20, 1000, 1e6])),
            "skew_by": draw(st.sampled_from(["group", "prediction"])), "heavy": draw(st.integers(0, 2)),
            "weighted": draw(st.lists(st.sampled_from(["selection_rate", "mean_prediction", "true_positive_rate", "wmean"]),
                                      min_size=1, max_size=2)) if draw(st.integers(0, 5)) else [],
            "w_kind": draw(st.sampled_from(["list", "ndarray", "series"]))}


def check_distinct_resamples(case):
    """The n_boot resamples are separate draws: for a metric whose value is a sum of real-valued per-row terms (two
    different multisets of rows give different values with probability 1) the order statistics of the resampled
    values - read off as the quantiles at the levels k/(n_boot-1) - are pairwise different.  Resamples that repeat
    (a seed stream with a short period, pairs of resamples sharing a seed) show as equal neighbours."""
    from fairlearn.metrics import MetricFrame

    rs = np.random.RandomState(case["seed"])
    n, B = case["n"], case["n_boot"]
    yp = rs.uniform(0, 1, size=n)
    w = rs.uniform(0.5, 2.0, size=n)
    g = np.arange(n) % case["groups"]

    def wsum(y_true, y_pred, sample_weight):
        return float(np.sum(np.asarray(sample_weight, dtype=float) * np.asarray(y_pred, dtype=float)))

    qs = [k / (B - 1) for k in range(1, B - 1)]
    mf = MetricFrame(metrics=wsum, y_true=np.zeros(n), y_pred=yp, sensitive_features=g, sample_params={"sample_weight": w},
                     n_boot=B, ci_quantiles=qs, random_state=case["mf_seed"])
    vals = [float(v) for v in mf.overall_ci]
    M.need(all(b >= a for a, b in zip(vals, vals[1:])), f"overall_ci not non-decreasing in the quantile: {vals}")
    ties = [(qs[i], vals[i]) for i in range(len(vals) - 1) if vals[i + 1] == vals[i]]
    M.need(not ties, f"n_boot={B} resamples of n={n} rows: the quantiles at the levels k/(n_boot-1) repeat the value(s) {ties[:3]} - "
                     f"two resamples drew exactly the same rows (random_state={case['mf_seed']})")
    return ["nt", f"n_boot={B}"] + (["n_boot>1000"] if B > 1000 else [])


@st.composite
def _distinct_case(draw):
    return {"n": draw(st.integers(30, 80)), "n_boot": draw(st.sampled_from([4, 8, 20, 50, 100, 100, 1100, 2100])), "groups": draw(st.integers(1, 3)),
            "seed": draw(st.integers(0, 2**31 - 1)), "mf_seed": draw(st.integers(0, 2**31 - 1))}


def check_many_rows(case):
    """More than 2**17 rows: every resample still has exactly n rows (count at every quantile), group sizes vary."""
    from fairlearn.metrics import MetricFrame, count

    n = case["n"]
    g = np.arange(n) % case["groups"]
    mf = MetricFrame(metrics=count, y_true=np.zeros(n, dtype=int), y_pred=np.zeros(n, dtype=int), sensitive_features=g,
                     n_boot=case["n_boot"], ci_quantiles=[0.1, 0.9], random_state=case["seed"])
    for qi, v in enumerate(mf.overall_ci):
        M.need(float(v) == n, f"overall_ci[{qi}] of the row count is {v!r} for n={n} rows: a resample does not draw n rows")
    tot = sum(float(x) for x in mf.by_group_ci[0]) , sum(float(x) for x in mf.by_group_ci[1])
    M.need(tot[0] <= n <= tot[1], f"group sizes at the 0.1 / 0.9 quantiles add up to {tot}, n={n}")
    return ["nt"]


@st.composite
def _many_rows_case(draw):
    return {"n": draw(st.sampled_from([131073, 140000, 262145, 131072])), "groups": draw(st.integers(1, 3)),
            "n_boot": draw(st.sampled_from([2, 3])), "seed": draw(st.integers(0, 2**31 - 1))}


def check_group_constant(case):
    """Predictions that are constant within each group: whatever rows a resample draws, a group's selection rate
    is its constant, so every by_group_ci entry must be exactly that constant (or NaN when the group was never
    drawn) - rows of different groups must never be mixed."""
    from fairlearn.metrics import MetricFrame, count, selection_rate

    g = case["groups"]
    const = case["const"]
    n = len(g)
    yp = [const[x] for x in g]
    mf = MetricFrame(metrics={"sel": selection_rate, "cnt": count}, y_true=[0] * n, y_pred=yp, sensitive_features=g,
                     n_boot=case["n_boot"], ci_quantiles=list(case["quantiles"]), random_state=case["seed"])
    sizes = {k: g.count(k) for k in set(g)}
    for qi, entry in enumerate(mf.by_group_ci):
        M.need(isinstance(entry, pd.DataFrame) and list(entry.columns) == ["sel", "cnt"], f"by_group_ci[{qi}] is {type(entry).__name__}")
        M.need(set(entry.index) <= set(sizes), f"by_group_ci[{qi}] index {list(entry.index)} has groups that do not exist")
        for k in entry.index:
            v = entry.loc[k, "sel"]
            M.need(pd.isna(v) or float(v) == float(const[k]),
                   f"by_group_ci[{qi}][{k!r}] selection rate {v!r}: every row of group {k!r} predicts {const[k]}, so any resample gives {const[k]} (n_boot={case['n_boot']}, seed={case['seed']})")
            c = entry.loc[k, "cnt"]
            M.need(pd.isna(c) or 1 <= float(c) <= n, f"by_group_ci[{qi}][{k!r}] count {c!r}")
    return ["nt", f"n_boot={case['n_boot']}"] + (["rare_groups>=2"] if sum(1 for v in sizes.values() if v == 1) >= 2 else [])


@st.composite
def _group_constant_case(draw):
    labels = ["a", "b", "c", "d", "e"]
    k = draw(st.integers(2, 5))
    sizes = [draw(st.sampled_from([1, 1, 1, 2, 4])) for _ in range(k)]
    g = []
    for lab, s_ in zip(labels, sizes):
        g += [lab] * s_
    g = [g[i] for i in draw(st.permutations(range(len(g))))]
    return {"groups": g, "const": {lab: draw(st.integers(0, 1)) for lab in labels[:k]},
            "n_boot": draw(st.sampled_from([2, 2, 3, 3, 5, 10])), "seed": draw(st.integers(0, 2**31 - 1)),
            "quantiles": draw(st.sampled_from([[0.5], [0.1, 0.9], [0.02, 0.5, 0.98]]))}


@st.composite
def _case(draw):
    c = draw(M.mf_case(metric_keys=("selection_rate", "count", "wmean", "const", "selection_rate"),
                       max_rows=16, y_mode="binary", allow_collisions=False))
    c["n_boot"] = draw(st.sampled_from([1, 2, 5, 5, 30, 30, 200]))
    k = draw(st.integers(1, 4))
    qs = draw(st.lists(st.sampled_from([0.02, 0.1, 0.25, 0.5, 0.75, 0.9, 0.98, 0.333]), min_size=k, max_size=k, unique=True))
    c["quantiles"] = qs
    c["q_kind"] = draw(st.sampled_from(["list", "list", "tuple", "ndarray"]))
    c["seed"] = draw(st.integers(0, 2**31 - 1))
    return c


@st.composite
def _width_case(draw):
    n = draw(st.integers(12, 24))
    k = draw(st.integers(math.ceil(0.25 * n), math.floor(0.75 * n)))
    yp = [1] * k + [0] * (n - k)
    yp = [yp[i] for i in draw(st.permutations(range(n)))]
    ng = draw(st.sampled_from([1, 2, 2, 3, 3]))
    g = [("a", "b", "c")[i % ng] for i in range(n)]
    return {"y_pred": yp, "groups": g, "seed": draw(st.integers(0, 2**31 - 1)),
            "kind": draw(st.sampled_from(["list", "ndarray", "series"]))}


SUBS = [
    Sub("shape_order_determinism", check, strategy=_case, quick=220, thorough=5000, shards=16, shrink_quick=False,
        floors={"nt": 0.247, "control": 0.15, "dict": 0.237, "quantiles>=2": 0.251, "index_equality_checked": 0.02}),
    Sub("width", check_width, strategy=_width_case, quick=30, thorough=600, shards=8, shrink_quick=False,
        floors={"nt": 0.2}),
    Sub("group_constant_predictions", check_group_constant, strategy=_group_constant_case, quick=400, thorough=8000, shards=16,
        floors={"rare_groups>=2": 0.3}),
    Sub("many_rows", check_many_rows, strategy=_many_rows_case, quick=4, thorough=24, shards=4, shrink_quick=False),
    Sub("distinct_resamples", check_distinct_resamples, strategy=_distinct_case, quick=64, thorough=1200, shards=16, shrink_quick=False,
        floors={"n_boot>1000": 0.08}),
    Sub("uniform_draws", check_uniform_draws, strategy=_uniform_case, quick=96, thorough=1600, shards=16, shrink_quick=False,
        floors={"skewed_sample_weight_present": 0.3}),
]
