"""C15 - CorrelationRemover output is uncorrelated with every sensitive column.

Oracle (first principles, plain numpy; ``numpy.linalg.lstsq`` is never called by the oracle):
  (i)   alpha = 1: |sum_i (s_i - mean s) * out_i| <= 1e-8 * ||s - mean s|| * ||z|| for every output
        column and every sensitive column of the training data (also collinear / constant columns);
  (ii)  alpha = 0: output == the non-sensitive columns in their original order (sensitive dropped);
  (iii) out(alpha) == alpha * out(1) + (1 - alpha) * out(0);
  (iv)  out(1) == Z - P Z with P the orthogonal projector on the span of the per-column-centred
        sensitive columns (SVD basis of the numerical column space; a case whose centred block has a
        singular value ratio in (1e-12, 1e-6] is outside the stated domain and skipped);
  (v)   transform(X_train) == fit_transform(X_train); on new rows transform is row-wise, affine
        (T(l*x + (1-l)*x') == l*T(x) + (1-l)*T(x')), leaves a row whose sensitive part is the training
        mean unchanged, and in the full-rank case equals z - (s - mean_train) @ beta with beta from a QR
        solve of the centred training block.
"""

from __future__ import annotations

import numpy as np
import pandas as pd
from hypothesis import strategies as st

from vf.runner import PropertyViolation, Skip, Sub

PROPERTY = "C15"
LEVEL = "exploration"
RULE = (
    "Hypothesis draws n in 2..30 rows, 1..4 sensitive and 1..5 other columns with integer or one-decimal "
    "entries plus a per-column offset (so column means differ), optionally makes one sensitive column an "
    "exact integer combination of the others (collinear) or constant, or copies a multiple of a "
    "sensitive column into a non-sensitive one; draws the column layout (sensitive columns anywhere), the "
    "order of sensitive_feature_ids, ndarray (ids by position, int or float dtype) or DataFrame (ids by "
    "name), alpha in [0,1] (0 and 1 included), 1..3 pairs of new rows and a mixing weight. Non-trivial: "
    ">= 2 sensitive columns whose means differ and some non-sensitive column that the alpha=1 transform "
    "actually changes. Distinct = distinct canonical JSON."
)
ASSUMPTIONS = [
    "numpy SVD/QR are trusted as linear-algebra primitives; numpy.linalg.lstsq is not used by the oracle",
    "tolerances: covariance 1e-8 * max(||s_c||, 1e-4*||s||, 1e-4) * max(||z||, ||out||, 1); alpha=0 identity and alpha blend 1e-12 * scale; "
    "projector / explicit affine map 1e-8 * scale (only asserted when cond(centred block) < 1e6 or the "
    "block is exactly rank deficient: smallest singular values <= 1e-12 * largest)",
    "on new data only properties that hold for every least-squares solution are asserted in the "
    "rank-deficient case (affine, row-wise, fixed point at the training mean)",
]

NAMES = ["a", "b", "c", "s", "s_1", "x", "0", "z", "col w"]


def _is_close(a, b, tol):
    a = np.asarray(a, float)
    b = np.asarray(b, float)
    if a.shape != b.shape:
        return False
    if a.size == 0:
        return True
    if not (np.all(np.isfinite(a)) and np.all(np.isfinite(b))):
        return False
    return bool(np.max(np.abs(a - b)) <= tol)


def _need(ok, msg):
    if not ok:
        raise PropertyViolation(msg)


def _build(case):
    S = np.asarray(case["S"], float).T  # n x ns
    Z = np.asarray(case["Z"], float).T  # n x no
    layout = case["layout"]  # list of ["s", i] / ["z", j]
    cols = []
    for kind, j in layout:
        cols.append(S[:, j] if kind == "s" else Z[:, j])
    X = np.column_stack(cols)
    s_pos = {j: p for p, (kind, j) in enumerate(layout) if kind == "s"}
    z_pos = [p for p, (kind, j) in enumerate(layout) if kind == "z"]  # output order = layout order
    z_ids = [j for (kind, j) in layout if kind == "z"]
    return X, S, Z, s_pos, z_pos, z_ids


def _wrap(case, X):
    """The object handed to fairlearn and the sensitive_feature_ids."""
    _, _, _, s_pos, _, _ = _build(case)
    order = case["ids_order"]
    if case["container"] == "dataframe":
        names = case["names"]
        if case.get("int_labels"):
            # integer column *labels* that are not the positions (a permutation of 0..k-1 derived from the drawn
            # names): for a DataFrame the ids are labels, never positions
            rank = sorted(range(len(names)), key=lambda i: names[i])
            names = [rank.index(i) for i in range(len(names))]
        ids = [names[s_pos[j]] for j in order]
        return pd.DataFrame(X, columns=names), ids
    ids = [s_pos[j] for j in order]
    if case.get("as_int") and np.all(X == np.round(X)):
        X = X.astype(np.int64)
    if case.get("ids_tuple"):
        ids = tuple(ids)
    return X, ids


def _mk(case, ids, alpha):
    from fairlearn.preprocessing import CorrelationRemover

    return CorrelationRemover(sensitive_feature_ids=ids, alpha=alpha)


def _out(res, shape, what):
    _need(isinstance(res, np.ndarray), f"{what} returned {type(res).__name__}, expected ndarray")
    _need(res.shape == shape, f"{what} has shape {res.shape}, expected {shape}")
    return np.asarray(res, float)


def check(case):
    X, S, Z, s_pos, z_pos, z_ids = _build(case)
    n, ns = S.shape
    no = Z.shape[1]
    alpha = float(case["alpha"])
    Zo = X[:, z_pos]  # non-sensitive columns in layout order
    tags = []

    # ---- reference quantities -------------------------------------------------------------------
    s_mean = np.array([np.sum(S[:, j]) / n for j in range(ns)])
    Sc = S - s_mean
    sv = np.linalg.svd(Sc, compute_uv=False)
    smax = sv[0] if sv.size else 0.0
    if smax == 0.0:
        rank, klass = 0, "rank_deficient"
    else:
        rel = sv / smax
        big = int(np.sum(rel > 1e-6))
        tiny = int(np.sum(rel <= 1e-12))
        if big + tiny != len(sv):
            raise Skip("centred sensitive block ill-conditioned but not exactly rank deficient (cond in 1e6..1e12)")
        elif big == ns:
            rank, klass = ns, "full_rank"
        else:
            rank, klass = big, "rank_deficient"
    tags.append(klass)

    Xin, ids = _wrap(case, X)

    # ---- fit_transform with alpha = 1, 0 and the drawn alpha -----------------------------------------
    def fresh(a):
        Xi, ids_i = _wrap(case, X)
        est = _mk(case, ids_i, a)
        return est, _out(est.fit_transform(Xi), (n, no), f"fit_transform(alpha={a})")

    est1, out1 = fresh(1.0)
    est0, out0 = fresh(0.0)
    esta, outa = fresh(alpha)
    _need(np.all(np.isfinite(out1)), "alpha=1 output contains non-finite values")

    zscale = max(1.0, float(np.max(np.abs(Zo))))
    # (ii) alpha = 0: the non-sensitive columns, in order
    _need(_is_close(out0, Zo, 1e-12 * zscale),
          f"alpha=0 output differs from the non-sensitive columns in their original order: {out0.tolist()} vs {Zo.tolist()}")

    # (i) zero sample covariance with every sensitive column
    for j in range(ns):
        sc = Sc[:, j]
        # a constant column is centred to round-off (~1e-16 * |s|), hence the floor on the norm
        nsc = max(float(np.linalg.norm(sc)), 1e-4 * float(np.linalg.norm(S[:, j])), 1e-4)
        for k in range(no):
            dot = float(np.dot(sc, out1[:, k]))
            bound = 1e-8 * nsc * max(1.0, float(np.linalg.norm(Zo[:, k])), float(np.linalg.norm(out1[:, k])))
            if abs(dot) > bound:
                cov = dot / n
                raise PropertyViolation(
                    f"alpha=1: output column {k} has sample covariance {cov!r} with sensitive column {j} "
                    f"(|<s_c, out>| = {abs(dot)!r} > {bound!r}); sensitive means {s_mean.tolist()}"
                )

    # (iii) blend
    scale1 = max(zscale, float(np.max(np.abs(out1))))
    _need(_is_close(outa, alpha * out1 + (1 - alpha) * out0, 1e-12 * scale1),
          f"out(alpha={alpha}) != alpha*out(1) + (1-alpha)*out(0)")

    # (iv) orthogonal projector on the centred sensitive span
    beta = None
    if rank == 0:
        ref1 = Zo.copy()
    else:
        U = np.linalg.svd(Sc, full_matrices=False)[0][:, :rank]
        ref1 = Zo - U @ (U.T @ Zo)
    _need(_is_close(out1, ref1, 1e-8 * scale1),
          f"alpha=1 output differs from Z - P Z (least-squares residual on the per-column-centred "
          f"sensitive columns): max dev {float(np.max(np.abs(out1 - ref1)))!r}; got {out1.tolist()} expected {ref1.tolist()}")
    if klass == "full_rank":
        Q, R = np.linalg.qr(Sc)
        beta = np.linalg.solve(R, Q.T @ Zo)

    # (v) transform on the training data
    for est, ref, a in ((est1, out1, 1.0), (esta, outa, alpha)):
        Xi, _ = _wrap(case, X)
        tr = _out(est.transform(Xi), (n, no), f"transform(X_train) alpha={a}")
        _need(_is_close(tr, ref, 1e-12 * scale1), f"transform(X_train) != fit_transform(X_train) for alpha={a}")

    # (v) new data
    s_cols = [s_pos[j] for j in range(ns)]
    lam = float(case["lam"])

    def T(est, rows):
        rows = np.atleast_2d(np.asarray(rows, float))
        if case["container"] == "dataframe":
            obj = pd.DataFrame(rows, columns=case["names"])
        else:
            obj = rows
        return _out(est.transform(obj), (rows.shape[0], no), "transform(new rows)")

    A = np.asarray(case["new_a"], float)
    B = np.asarray(case["new_b"], float)
    m = A.shape[0]
    for est, a in ((est1, 1.0), (esta, alpha)):
        Ta, Tb = T(est, A), T(est, B)
        mix = lam * A + (1 - lam) * B
        Tm = T(est, mix)
        sc_ = max(1.0, float(np.max(np.abs(Ta))), float(np.max(np.abs(Tb))), float(np.max(np.abs(Tm))),
                  float(np.max(np.abs(A))), float(np.max(np.abs(B)))) * max(1.0, abs(lam), abs(1 - lam))
        _need(np.all(np.isfinite(Tm)), "transform(new rows) is not finite")
        _need(_is_close(Tm, lam * Ta + (1 - lam) * Tb, 1e-9 * sc_),
              f"transform is not affine: T({lam}*x+(1-{lam})*x') deviates from the mixture by "
              f"{float(np.max(np.abs(Tm - (lam * Ta + (1 - lam) * Tb))))!r} (alpha={a})")
        # row-wise: stacked rows give the same result as single rows
        stacked = T(est, np.vstack([A, B]))
        _need(_is_close(stacked[:m], Ta, 1e-12 * sc_) and _is_close(stacked[m:], Tb, 1e-12 * sc_),
              "transform is not row-wise (stacking rows changes their images)")
        single = T(est, A[0])
        _need(_is_close(single, Ta[:1], 1e-12 * sc_), "transform of a single row differs from the row inside a batch")
        # rows whose sensitive part equals the training mean stay unchanged
        F = A.copy()
        F[:, s_cols] = s_mean
        Tf = T(est, F)
        _need(_is_close(Tf, F[:, z_pos], 1e-9 * sc_),
              f"a row whose sensitive part equals the training mean is changed by {float(np.max(np.abs(Tf - F[:, z_pos])))!r}")
        if beta is not None:
            cond = float(sv[0] / sv[-1])
            ref = A[:, z_pos] - a * ((A[:, s_cols] - s_mean) @ beta)
            sc2 = sc_ * max(1.0, float(np.max(np.abs(beta))))
            _need(_is_close(Ta, ref, 1e-8 * sc2 * max(1.0, cond * 1e-3)),
                  f"transform(new rows) differs from z - alpha*(s - mean_train) @ beta: max dev "
                  f"{float(np.max(np.abs(Ta - ref)))!r} (alpha={a})")

    # ---- classes --------------------------------------------------------------------------------------
    changed = bool(np.max(np.abs(out1 - Zo)) > 1e-9 * zscale)
    if ns >= 2 and float(np.max(s_mean) - np.min(s_mean)) > 1e-9 and changed:
        tags.append("nt")
    if ns >= 2:
        tags.append("ns>=2")
    if case.get("mode") == "collinear":
        tags.append("collinear")
    if any(float(np.max(S[:, j]) - np.min(S[:, j])) == 0.0 for j in range(ns)):
        tags.append("constant_col")
    if n - 1 < ns:
        tags.append("n<=ns")
    if case["container"] == "dataframe":
        tags.append("dataframe")
        if case.get("int_labels"):
            tags.append("dataframe_int_labels")
    if 0.0 < alpha < 1.0:
        tags.append("alpha_interior")
    if alpha in (0.0, 1.0):
        tags.append("alpha_end")
    if [k for k, _ in case["layout"]] != ["s"] * ns + ["z"] * no:
        tags.append("interleaved")
    if len(case["S"]) + len(case["Z"]) > 16:
        tags.append("columns>16")
    return tags


# ---- strategy ------------------------------------------------------------------------------------------


def _tenths(v):
    return v / 10.0


@st.composite
def _cases(draw):
    n = draw(st.one_of(st.integers(2, 5), st.integers(2, 30)))
    ns = draw(st.sampled_from([1, 2, 2, 2, 3, 3, 4]))
    no = draw(st.one_of(st.integers(1, 5), st.integers(1, 5), st.integers(1, 5), st.sampled_from([13, 16, 22])))  # also wide tables
    decimal = draw(st.booleans())
    lo, hi = (-50, 90) if decimal else (-5, 9)

    def column():
        vals = draw(st.lists(st.integers(lo, hi), min_size=n, max_size=n))
        off = draw(st.sampled_from([0, 0, 10, -20, 100, 3]))
        if decimal:
            off *= 10
        return [v + off for v in vals]  # integers (tenths when decimal)

    S = [column() for _ in range(ns)]
    Z = [column() for _ in range(no)]
    if draw(st.integers(0, 5)) == 0:
        # a sensitive column that varies little around a large offset (a year, an id): still has to be regressed out
        j = draw(st.integers(0, ns - 1))
        big = draw(st.sampled_from([1000000, 20000000])) * (10 if decimal else 1)
        S[j] = [v + big for v in S[j]]
    mode = draw(st.sampled_from(["free", "free", "free", "collinear", "constant", "leak"]))
    if mode == "collinear" and ns >= 2:
        tgt = draw(st.integers(0, ns - 1))
        coef = [draw(st.integers(-2, 3)) for _ in range(ns)]
        const = draw(st.integers(-3, 3))
        src = [j for j in range(ns) if j != tgt]
        if all(coef[j] == 0 for j in src):
            coef[src[0]] = 1
        S[tgt] = [sum(coef[j] * S[j][i] for j in src) + const for i in range(n)]
    elif mode == "constant":
        tgt = draw(st.integers(0, ns - 1))
        S[tgt] = [S[tgt][0]] * n
    elif mode == "leak":
        # a non-sensitive column that is (partly) a linear function of sensitive columns
        k = draw(st.integers(0, no - 1))
        j = draw(st.integers(0, ns - 1))
        c = draw(st.sampled_from([1, -1, 2, 3]))
        keep = draw(st.booleans())
        Z[k] = [c * S[j][i] + (Z[k][i] if keep else 0) for i in range(n)]
    div = 10.0 if decimal else 1.0
    S = [[v / div for v in col] for col in S]
    Z = [[v / div for v in col] for col in Z]

    layout = [["s", j] for j in range(ns)] + [["z", j] for j in range(no)]
    if draw(st.booleans()):
        layout = list(draw(st.permutations(layout)))
    ids_order = list(draw(st.permutations(range(ns))))
    container = draw(st.sampled_from(["ndarray", "ndarray", "dataframe"]))
    names = list(draw(st.permutations(NAMES + ["w%d" % i for i in range(max(0, ns + no - len(NAMES)))])))[: ns + no]
    alpha = draw(st.one_of(st.sampled_from([0.0, 1.0, 0.5, 0.25]), st.floats(0.0, 1.0, allow_nan=False)))
    m = draw(st.integers(1, 3))

    def new_rows():
        rows = []
        for _ in range(m):
            rows.append([draw(st.integers(lo, hi)) / div + draw(st.sampled_from([0, 0, 10, 100])) for _ in range(ns + no)])
        return rows

    return {
        "S": S,
        "Z": Z,
        "mode": mode,
        "layout": layout,
        "ids_order": ids_order,
        "container": container,
        "names": names,
        "as_int": draw(st.booleans()),
        "int_labels": draw(st.integers(0, 3)) == 0,
        "ids_tuple": draw(st.booleans()),
        "alpha": alpha,
        "new_a": new_rows(),
        "new_b": new_rows(),
        "lam": draw(st.one_of(st.sampled_from([0.5, 0.25, 2.0, -1.0]), st.floats(-2.0, 3.0, allow_nan=False))),
    }


# ---- sensitive columns on very different scales ---------------------------------------------------------------


def check_scales(case):
    """Sensitive columns whose scales differ by many orders of magnitude (a 0/1 flag next to an income in cents):
    rescaling a column changes neither the span nor the projection, so every output column must be uncorrelated
    (scale-free: |corr| <= 1e-6) with every sensitive column, and equal the residual of a column-normalised
    least-squares fit."""
    from fairlearn.preprocessing import CorrelationRemover

    base = np.asarray(case["S"], dtype=float).T  # n x ns, well conditioned after centring (checked below)
    Z = np.asarray(case["Z"], dtype=float).T
    fac = np.asarray(case["factors"], dtype=float)
    S = base * fac
    n, ns = S.shape
    Sc0 = base - base.mean(axis=0)
    if float(np.min(np.linalg.norm(Sc0, axis=0))) < 1e-9:
        raise Skip("constant sensitive column (covered by the main sub-check)")
    sv = np.linalg.svd(Sc0 / np.linalg.norm(Sc0, axis=0), compute_uv=False)
    if sv[-1] / sv[0] < 1e-2:
        raise Skip("normalised sensitive block not well conditioned")
    X = np.column_stack([S, Z])
    out = np.asarray(CorrelationRemover(sensitive_feature_ids=list(range(ns)), alpha=1.0).fit_transform(X), dtype=float)
    _need(out.shape == Z.shape, f"output shape {out.shape}, expected {Z.shape}")
    Q, _ = np.linalg.qr(Sc0 / np.linalg.norm(Sc0, axis=0))
    ref = Z - Q @ (Q.T @ (Z - Z.mean(axis=0)))
    zs = max(1.0, float(np.max(np.abs(Z))))
    _need(bool(np.max(np.abs(out - ref)) <= 1e-6 * zs),
          f"alpha=1 output is not the least-squares residual on the centred sensitive columns (column scales {fac.tolist()}): max deviation {float(np.max(np.abs(out - ref)))!r}")
    for j in range(ns):
        sc = Sc0[:, j] / np.linalg.norm(Sc0[:, j])
        for k in range(out.shape[1]):
            oc = out[:, k] - out[:, k].mean()
            no_ = float(np.linalg.norm(oc))
            if no_ > 1e-4 * zs:  # correlation of an (almost) constant output column is round-off noise
                corr = float(sc @ oc) / no_
                _need(abs(corr) <= 1e-6, f"output column {k} keeps correlation {corr!r} with sensitive column {j} (column scales {fac.tolist()})")
    tags = ["nt", "scale_ratio>=1e6"] if max(fac) / min(fac) >= 1e6 else ["nt"]
    if ns == 1 and (fac[0] > 1e150 or fac[0] < 1e-150):
        tags.append("single_column_extreme_units")
    return tags


def check_tall(case):
    """Tens of thousands of rows and two sensitive columns that are nearly (not exactly) collinear (condition number
    1e4 .. 1e6): the output is still the least-squares residual - compared with a Householder-QR reference on the
    centred, normalised sensitive block - and uncorrelated with both sensitive columns."""
    from fairlearn.preprocessing import CorrelationRemover

    rs = np.random.RandomState(case["seed"])
    n = case["n"]
    s1 = rs.randn(n)
    s2 = s1 + case["eps"] * rs.randn(n)
    Z = np.column_stack([rs.randn(n) + 0.7 * s1 + 0.4 * (s2 - s1) / case["eps"] for _ in range(case["no"])])
    X = np.column_stack([s1, s2, Z])
    out = np.asarray(CorrelationRemover(sensitive_feature_ids=[0, 1], alpha=1.0).fit_transform(X), dtype=float)
    _need(out.shape == Z.shape, f"output shape {out.shape}, expected {Z.shape}")
    S = X[:, :2] - X[:, :2].mean(axis=0)
    Q, _ = np.linalg.qr(S / np.linalg.norm(S, axis=0))
    ref = Z - Q @ (Q.T @ (Z - Z.mean(axis=0)))
    dev = float(np.max(np.abs(out - ref)))
    _need(dev <= 1e-6 * max(1.0, float(np.max(np.abs(Z)))),
          f"n={n}, two sensitive columns with relative difference {case['eps']}: output deviates from the least-squares residual by {dev!r}")
    for j in range(2):
        sc = S[:, j] / np.linalg.norm(S[:, j])
        for k in range(out.shape[1]):
            oc = out[:, k] - out[:, k].mean()
            corr = float(sc @ oc) / float(np.linalg.norm(oc))
            _need(abs(corr) <= 1e-6, f"n={n}: output column {k} keeps correlation {corr!r} with sensitive column {j}")
    return ["nt"] + (["n>50000"] if n > 50000 else [])


@st.composite
def _tall_cases(draw):
    return {"n": draw(st.sampled_from([50001, 60000, 100000, 2000])), "eps": draw(st.sampled_from([1e-4, 1e-5, 1e-6])),
            "no": draw(st.integers(1, 2)), "seed": draw(st.integers(0, 2**31 - 1))}


@st.composite
def _scale_cases(draw):
    n = draw(st.integers(5, 12))
    ns = draw(st.sampled_from([1, 2, 2, 3, 3]))
    no = draw(st.integers(1, 3))
    col = lambda: draw(st.lists(st.integers(-5, 9), min_size=n, max_size=n))  # noqa: E731
    if ns == 1:
        # a single sensitive column in units that make it astronomically large or small (its square over- / underflows)
        factors = [draw(st.sampled_from([1e160, 1e-165, 1e155, 1e-170, 1e100, 1.0]))]
    else:
        factors = [draw(st.sampled_from([1.0, 1.0, 1e-4, 1e4, 1e3, 100.0])) for _ in range(ns)]
    return {"S": [col() for _ in range(ns)], "Z": [col() for _ in range(no)], "factors": factors}


# ---- finding D15: centring round-off above numpy.lstsq's default cutoff ---------------------------------
#
# When the centred sensitive block is exactly rank deficient in real arithmetic (n <= number of
# sensitive columns, collinear columns) the floating-point centring leaves a spurious singular value of
# relative size ~1e-16..1e-13.  numpy.linalg.lstsq(rcond=None) only discards ratios below
# eps*max(n, ns); anything above is inverted, beta_ becomes ~1e13 and the output is garbage (neither the
# least-squares residual nor uncorrelated).  The region is stated on the input alone.

_EPS = float(np.finfo(float).eps)


def in_d15(sub_name, case):
    try:
        S = np.asarray(case["S"], float).T
    except Exception:  # noqa: BLE001
        return False
    n, ns = S.shape
    Sc = S - S.mean(axis=0)
    sv = np.linalg.svd(Sc, compute_uv=False)
    if sv.size == 0 or sv[0] == 0.0:
        return False
    rel = sv / sv[0]
    return bool(np.any((rel > 0.5 * _EPS * max(n, ns)) & (rel <= 1e-12)))


REGIONS = {"D15": in_d15}

_D15_PROBE = {
    "S": [[0.0, 0.1], [10.0, 10.1]], "Z": [[0.0, 0.1]], "mode": "free",
    "layout": [["s", 0], ["s", 1], ["z", 0]], "ids_order": [0, 1], "container": "ndarray",
    "names": ["a", "b", "c"], "as_int": False, "ids_tuple": False, "alpha": 1.0,
    "new_a": [[0.0, 0.0, 0.0]], "new_b": [[0.0, 0.0, 0.0]], "lam": 0.5,
}
PROBES = {"D15": [("remover", _D15_PROBE)]}

SUBS = [
    Sub("remover", check, strategy=_cases, quick=1500, thorough=40000, shards=16,
        floors={"nt": 0.3, "ns>=2": 0.343, "collinear": 0.05, "constant_col": 0.05, "rank_deficient": 0.1,
                "full_rank": 0.224, "dataframe": 0.1, "alpha_interior": 0.209, "alpha_end": 0.1, "interleaved": 0.126}),
    Sub("column_scales", check_scales, strategy=_scale_cases, quick=300, thorough=6000, shards=8, max_skip_frac=0.6,
        floors={"scale_ratio>=1e6": 0.05}),
    Sub("tall_near_collinear", check_tall, strategy=_tall_cases, quick=8, thorough=100, shards=8, shrink_quick=False,
        floors={"n>50000": 0.281}),
]
