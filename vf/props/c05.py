"""C05 - ThresholdOptimizer returns the best parity-satisfying threshold rule on its grid.

Oracle: independent brute force.  For every group every thresholding of the group's scores is
enumerated ('score > c' for every cut c between distinct levels and +-inf; with flip also 'score < c'),
its exact (constraint value, objective value) point is computed from the rows, and the per-group upper
concave envelope is evaluated at every grid x by brute force over points and point pairs
(vf.tocommon.ref_envelope).  The reference optimum is
 (a) single-metric constraints: max over the grid of sum_g freq(g) * envelope_g(x);
 (b) equalized odds: x = FPR, y_min(x) = min_g ROC-envelope_g(x), objective (n_neg (1-x) + n_pos y_min)/n
     (accuracy_score) or ((1-x) + y_min)/2 (balanced_accuracy_score), max over the grid.
The fitted rule's expected objective, computed from ``_pmf_predict`` on the training rows, must equal it.
"""

from __future__ import annotations

import math
from fractions import Fraction

import numpy as np
from hypothesis import strategies as st

from vf import tocommon as T
from vf.runner import PropertyViolation, Sub

PROPERTY = "C05"
LEVEL = "exploration"
RULE = (
    "Cases come from the C04 generator (2..5 groups x 2..8 rows, both labels per group, six score level "
    "sets with distinct levels >= 1e-3 apart and per group label-independent / informative / anti-informative "
    "scores, shuffled rows, 7 constraints x admissible objectives (accuracy and balanced accuracy drawn three "
    "times as often as the three rate objectives, whose optimum is always a constant classifier) x flip "
    "x grid_size in {1,2,3,7,10,50,1000} x prefit x predict_method x containers). A case is non-trivial "
    "when the reference optimum is strictly better (> 1e-9) than both constant classifiers and at least "
    "two groups have different brute-force envelopes; distinct = distinct canonical JSON. On the cases "
    "whose drawn field lp == 3 (about 10 %) the brute-force envelope itself is cross-checked against a linear "
    "program over distributions on the group's thresholdings at up to 7 grid points per group."
)
ASSUMPTIONS = [
    "scores reach the optimizer unchanged through the pass-through estimator vf.learners.ScoreColumn",
    "distinct score levels are at least 1e-3 apart; adjacent-float and overflowing scores are outside this check",
    "the rule class is the one of the property statement: per-group randomisation over thresholdings "
    "(flipped ones only when flip=True) with a common constraint value on the grid i/grid_size",
    "absolute tolerance 1e-9 between the fitted rule's expected objective and the reference optimum; "
    "1e-6 between the brute-force envelope and the HiGHS LP (harness self-check, not a verdict on fairlearn)",
]


def _overall(objective, ys, p):
    return T.metric(objective, ys, p)


def check(case):
    to, p = T.fit(case)
    groups = T.by_group(case)
    n = len(case["rows"])
    gsize = case["grid"]
    xs = [Fraction(i, gsize) for i in range(gsize + 1)]
    xs_f = np.array([float(x) for x in xs])
    x_metric, y_metric = T.xy_metrics(case)
    eo = case["constraint"] == "equalized_odds"
    objective = case["objective"]

    pts, env = {}, {}
    for g, (ys, ss, _idx) in groups.items():
        pts[g] = T.group_points(ys, ss, case["flip"], x_metric, y_metric)
        env[g] = T.ref_envelope(pts[g], xs)
        if not np.all(np.isfinite(env[g])):
            raise RuntimeError("oracle: envelope undefined on part of the grid")

    # ---- cross-check of the envelope routine itself (deterministic 10 % of the cases) ------------------
    if case.get("lp", 1) == 3:
        picks = sorted({int(round(v)) for v in np.linspace(0, gsize, min(gsize + 1, 7))})
        for g in groups:
            for i in picks:
                lp = T.ref_lp(pts[g], xs[i])
                if abs(lp - env[g][i]) > T.LP_TOL:
                    raise RuntimeError(
                        f"oracle self-check failed: envelope {env[g][i]!r} vs LP {lp!r} at x={xs[i]} for points {pts[g]}"
                    )

    all_y = [int(r[1]) for r in case["rows"]]
    if not eo:
        freq = {g: len(groups[g][0]) / n for g in groups}
        curve = sum(freq[g] * env[g] for g in groups)
        got = math.fsum(freq[g] * T.metric(objective, ys, [p[i] for i in idx]) for g, (ys, _s, idx) in groups.items())
        const = [
            math.fsum(freq[g] * T.metric(objective, ys, [c] * len(ys)) for g, (ys, _s, _i) in groups.items())
            for c in (0.0, 1.0)
        ]
    else:
        n_pos = sum(all_y)
        n_neg = n - n_pos
        y_min = np.min(np.vstack([env[g] for g in groups]), axis=0)
        if objective == "accuracy_score":
            curve = (n_neg * (1.0 - xs_f) + n_pos * y_min) / n
        elif objective == "balanced_accuracy_score":
            curve = 0.5 * (1.0 - xs_f) + 0.5 * y_min
        else:
            raise ValueError(objective)
        got = T.metric(objective, all_y, p)
        const = [T.metric(objective, all_y, [c] * n) for c in (0.0, 1.0)]
    best = float(np.max(curve))
    i_ref = int(np.argmax(curve))

    if not abs(got - best) <= T.TOL:
        raise PropertyViolation(
            f"expected {objective} of the fitted rule on the training rows = {got!r}, brute-force optimum over "
            f"parity-satisfying threshold rules on the grid = {best!r} (attained at x={xs[i_ref]}); "
            f"constraint={case['constraint']} flip={case['flip']} grid_size={gsize}; P(yhat=1) per row = {p}"
        )
    if got < max(const) - T.TOL:
        raise PropertyViolation(
            f"fitted rule's {objective} {got!r} is below the best constant classifier's {max(const)!r}"
        )

    tags = [t for t in T.structure_tags(case, to) if t != "nt"]
    # non-trivial: better than both constants, and two groups with different envelopes
    keys = sorted(groups)
    bx = sorted({pt[0] for g in keys for pt in pts[g]})
    env_b = [T.ref_envelope(pts[g], bx) for g in keys]
    differ = any(np.max(np.abs(env_b[0] - e)) > 1e-12 for e in env_b[1:])
    beats_const = best > max(const) + T.TOL
    if beats_const:
        tags.append("beats_constants")
    if differ:
        tags.append("hulls_differ")
    if beats_const and differ:
        tags.append("nt")
    if any(T.has_vertical(pts[g]) for g in keys):
        tags.append("vertical_segment")
    if eo:
        tags.append("equalized_odds")
    if case.get("lp", 1) == 3:
        tags.append("lp_crosscheck")
    if len(groups) >= 3:
        tags.append("groups>=3")
    if len({len(v[0]) for v in groups.values()}) > 1:
        tags.append("unequal_group_sizes")
    if 0 < i_ref < gsize:
        tags.append("optimum_inside_grid")
    return tags


def _strategy():
    return T.to_case(accuracy_bias=True)


def check_large_separable(case):
    """Groups of up to ~2 600 rows with pairwise distinct scores and labels that are a threshold function of the
    score within each group: the perfect classifier satisfies every label-conditional parity constraint at a
    grid end point, so the optimum on the grid is exactly 1.0 (analytic oracle, no enumeration needed)."""
    from fairlearn.postprocessing import ThresholdOptimizer

    from vf.learners import ScoreColumnMulti

    scores, labels, groups = [], [], []
    for g, (size, cut, lo, step) in enumerate(case["groups"]):
        for i in range(size):
            scores.append(lo + step * i)
            labels.append(1 if i >= cut else 0)
            groups.append("g%d" % g)
    n = len(scores)
    order = np.argsort([(i * case["mult"]) % n for i in range(n)], kind="stable")  # a fixed shuffle
    X = np.asarray(scores, dtype=float)[order].reshape(-1, 1)
    y = np.asarray(labels)[order]
    sf = np.asarray(groups)[order]
    pm = case["pm"]
    to = ThresholdOptimizer(estimator=ScoreColumnMulti(primary="predict_proba" if pm == "auto" else pm),
                            constraints=case["constraint"], objective=case["objective"], grid_size=case["grid"],
                            flip=case["flip"], prefit=True, predict_method=pm)
    to.fit(X, y, sensitive_features=sf)
    p = np.asarray(to._pmf_predict(X, sensitive_features=sf))[:, 1]
    if case["objective"] == "accuracy_score":
        got = float(np.where(y == 1, p, 1 - p).mean())
    else:
        got = 0.5 * (float(p[y == 1].mean()) + float((1 - p[y == 0]).mean()))
    if abs(got - 1.0) > 1e-9:
        raise PropertyViolation(
            f"separable groups of sizes {[g[0] for g in case['groups']]}: expected {case['objective']} of the fitted rule is "
            f"{got!r}; the perfect classifier satisfies {case['constraint']} on the grid, so the optimum is 1.0"
        )
    tags = ["nt"]
    if max(g[0] for g in case["groups"]) >= 2000:
        tags.append("group>=2000_rows")
    return tags


def _upper_hull_values(xs, ys, grid):
    """Values at the grid abscissae of the upper concave hull of the points (xs, ys) (monotone chain)."""
    order = np.lexsort((ys, xs))
    pts = []
    for i in order:
        x, y = float(xs[i]), float(ys[i])
        if pts and pts[-1][0] == x:
            pts[-1] = (x, max(y, pts[-1][1]))
        else:
            pts.append((x, y))
    hull = []
    for p in pts:
        while len(hull) >= 2 and (hull[-1][0] - hull[-2][0]) * (p[1] - hull[-2][1]) - (hull[-1][1] - hull[-2][1]) * (p[0] - hull[-2][0]) >= 0:
            hull.pop()
        hull.append(p)
    hx, hy = np.array([h[0] for h in hull]), np.array([h[1] for h in hull])
    return np.interp(grid, hx, hy)


def check_large_noisy(case):
    """Groups of 2 100 - 4 000 rows with pairwise distinct noisy scores and different base rates under demographic
    parity with accuracy as objective: the per-group objective rises and falls along the selection rate.  Reference:
    per group the points (selection rate, accuracy) of all thresholdings (numpy cumulative sums), their upper concave
    hull evaluated on the grid, weighted by group frequency; the optimum over the grid is what the fitted rule attains."""
    from fairlearn.postprocessing import ThresholdOptimizer

    from vf.learners import ScoreColumn

    rs = np.random.RandomState(case["seed"])
    S, Y, Gr = [], [], []
    for k, (size, base, sharp) in enumerate(case["groups"]):
        sc = rs.permutation(size) / float(size) + k * 1e-7  # pairwise distinct
        pr = 1.0 / (1.0 + np.exp(-sharp * (sc - (1.0 - base))))
        yy = (rs.rand(size) < pr).astype(int)
        yy[:2] = [0, 1]
        S.append(sc); Y.append(yy); Gr.append(np.full(size, k))
    s, y, g = np.concatenate(S), np.concatenate(Y), np.concatenate(Gr)
    perm = rs.permutation(len(s))
    s, y, g = s[perm], y[perm], g[perm]
    G = case["grid"]
    to = ThresholdOptimizer(estimator=ScoreColumn(), constraints=case["constraint"], objective="accuracy_score", grid_size=G,
                            flip=False, prefit=True, predict_method="predict")
    to.fit(s.reshape(-1, 1), y, sensitive_features=g)
    p = np.asarray(to._pmf_predict(s.reshape(-1, 1), sensitive_features=g))[:, 1]
    got = float(np.where(y == 1, p, 1 - p).mean())
    grid = np.linspace(0, 1, G + 1)
    total = np.zeros(G + 1)
    for k in range(len(case["groups"])):
        m = g == k
        o = np.argsort(-s[m], kind="stable")
        yy = y[m][o]
        ng = int(m.sum())
        tp = np.r_[0, np.cumsum(yy)]
        sel = np.arange(ng + 1)
        acc = (tp + ((ng - yy.sum()) - (sel - tp))) / ng
        total += (ng / len(s)) * _upper_hull_values(sel / ng, acc, grid)
    best = float(total.max())
    if got < best - 1e-9:
        raise PropertyViolation(
            f"groups of sizes {[gr[0] for gr in case['groups']]} with distinct noisy scores: the fitted rule has expected accuracy {got!r}, "
            f"but equal selection rate {float(grid[int(total.argmax())])!r} for every group allows {best!r} (grid_size={G})")
    if got > best + 1e-9:
        raise PropertyViolation(f"fitted rule reports expected accuracy {got!r} above the reference optimum {best!r}: selection rates are not equal")
    tags = ["nt"]
    if max(gr[0] for gr in case["groups"]) > 2048:
        tags.append("levels>2048")
    return tags


@st.composite
def _large_noisy_cases(draw):
    k = draw(st.integers(2, 3))
    groups = [[draw(st.sampled_from([2100, 2500, 3000, 4000, 600])), draw(st.sampled_from([0.2, 0.35, 0.5, 0.7])), draw(st.sampled_from([3.0, 8.0, 20.0]))]
              for _ in range(k)]
    groups[0][0] = draw(st.sampled_from([2100, 2500, 4000]))
    return {"groups": groups, "seed": draw(st.integers(0, 2**31 - 1)), "grid": draw(st.sampled_from([10, 100, 1000])),
            "constraint": draw(st.sampled_from(["demographic_parity", "selection_rate_parity"]))}


@st.composite
def _large_cases(draw):
    k = draw(st.integers(2, 3))
    groups = []
    for j in range(k):
        size = draw(st.sampled_from([2048, 2500, 2600, 40, 300, 1200])) if j else draw(st.sampled_from([2048, 2500, 2600, 3100]))
        cut = draw(st.integers(1, size - 1))
        groups.append([size, cut, draw(st.sampled_from([0.0, -1.0, 0.25])), draw(st.sampled_from([1e-3, 1.0 / 4096, 1e-4]))])
    constraint = draw(st.sampled_from(["equalized_odds", "true_positive_rate_parity", "false_positive_rate_parity",
                                       "false_negative_rate_parity", "true_negative_rate_parity"]))
    return {"groups": groups, "constraint": constraint,
            "objective": draw(st.sampled_from(["accuracy_score", "balanced_accuracy_score"])),
            "grid": draw(st.sampled_from([1, 10, 1000, 100000])), "flip": draw(st.booleans()),
            "pm": draw(st.sampled_from(["predict", "decision_function", "auto"])), "mult": draw(st.sampled_from([7919, 104729, 1]))}


SUBS = [
    Sub("optimum_random", check, strategy=_strategy, quick=1500, thorough=40000, shards=16,
        floors={"nt": 0.148, "beats_constants": 0.176, "hulls_differ": 0.296, "tie_pos_neg": 0.2, "interior_segment": 0.072, "grid_at_vertex": 0.2,
                "vertical_segment": 0.05, "p_ignore>0": 0.03, "flip_used": 0.03, "equalized_odds": 0.05,
                "groups>=3": 0.2, "lp_crosscheck": 0.031, "unequal_group_sizes": 0.277,
                "optimum_inside_grid": 0.079}),
    Sub("large_separable_groups", check_large_separable, strategy=_large_cases, quick=48, thorough=600, shards=16,
        shrink_quick=False, floors={"group>=2000_rows": 0.45}),
    Sub("optimum_large_noisy", check_large_noisy, strategy=_large_noisy_cases, quick=32, thorough=500, shards=16, shrink_quick=False,
        floors={"levels>2048": 0.45}),
]
