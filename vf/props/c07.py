"""C07 - reduction identity: sample re-weighting is the exact gradient of the Lagrangian.

Oracle (algebraic): lambda.gamma(h) is affine in h and signed_weights is linear in lambda, so the identity
lambda.gamma(h) - lambda.gamma(h') = -(1/n) sum_i w_i (h_i - h'_i) for all lambda >= 0 and all h, h' follows
from (i) its instances on unit multipliers x unit predictors and (ii) affinity / linearity, both checked
per dataset; (iii) random instances are checked directly.  (iv) the consequence for an exact learner is
compared with brute force over the enumerated hypothesis class, (v) project_lambda with the closed-form
minimum over the box [0,1]^n of an affine function.  gamma itself is decided by C06; here gamma and
signed_weights are two outputs of the implementation that the property relates.
"""

from __future__ import annotations

import itertools

import numpy as np
import pandas as pd
from hypothesis import strategies as st

from vf import momcommon as MC
from vf.learners import ExactTable
from vf.momcommon import need
from vf.runner import Skip, Sub

PROPERTY = "C07"
LEVEL = "exploration"
RULE = (
    "Datasets, parity moments, bounds and containers as in C06 (2..4 groups, a fifth of the cases up to 12 or 25, optional 1..3 control strata, "
    "n in [2,20], sparse (stratum, group, label) cells); per case two prediction vectors (hard/soft), two "
    "multiplier vectors lambda, mu >= 0 (each entry 0 with probability 1/3), coefficients alpha in [0,1], "
    "a, b >= 0. Sub-check 'parity_identity' evaluates the identity on every (index entry, row) pair of the "
    "case, affinity, a direct instance and project_lambda; 'loss_identity' does the same for "
    "BoundedGroupLoss / MeanLoss / ErrorRate; 'best_response' relabels/reweights, fits the exact learner "
    "over all functions of a categorical column with 2..5 levels and compares with brute force. "
    "Non-trivial: lambda has a '+' and a '-' positive entry on the same (event, group), or ratio < 1, or "
    "control features (loss sub-check: >= 2 groups / both label classes and h != h'). Distinct = distinct "
    "canonical JSON."
)
ASSUMPTIONS = [
    "signed_weights returns one weight per row in row order (it is consumed positionally by estimator.fit)",
    "multipliers are assigned to index entries by position in moment.index (a tag-only use of the index order)",
    "tolerance 1e-9 absolute (relative to max(1,|value|) for sums weighted by lambda <= 10)",
    "cases in which no event occurs (empty index, e.g. true-positive-rate parity without positive labels) "
    "are skipped: there is no multiplier to speak of",
    "best_response: the exact learner is vf.learners.ExactTable (weighted majority per level); the variant "
    "through _Lagrangian._call_oracle is skipped when all weights cancel (sum |w| = 0)",
]

TOL = 1e-9


def _close(a, b, scale=1.0):
    return abs(a - b) <= TOL * max(1.0, abs(a), abs(b), scale)


def _lam_series(index, values):
    vals = [float(values[k % len(values)]) for k in range(len(index))]
    return pd.Series(vals, index=index, dtype=float)


def _weights(w, n, what):
    need(isinstance(w, pd.Series), lambda: f"{what} is {type(w).__name__}, not a pandas Series")
    arr = np.asarray(w.to_numpy(), dtype=float).reshape(-1)
    need(arr.shape == (n,), lambda: f"{what} has shape {arr.shape}, expected one weight per row ({n})")
    need(bool(np.all(np.isfinite(arr))), lambda: f"{what} has non-finite entries: {arr.tolist()}")
    return arr


def _gamma(m, h, index=None):
    g = MC.as_series(m.gamma(MC.predictor(h)), "gamma(h)")
    if index is not None:
        need(len(g) == len(index), lambda: f"gamma(h) has {len(g)} entries, the index {len(index)}")
        g = g.reindex(index)
    v = np.asarray(g.to_numpy(), dtype=float)
    need(bool(np.all(np.isfinite(v))), lambda: f"gamma(h) not finite / not aligned with moment.index: {g.to_dict()}")
    return v


def _both_signs(index, lam):
    pos = {}
    for t, v in zip(index.tolist(), lam):
        if v > 0:
            pos.setdefault((t[1], str(t[2])), set()).add(t[0])
    return any(len(s) == 2 for s in pos.values())


def _class_tags(case, lam_arrays, index):
    tags = []
    r = MC.ratio_of(case["bound"])
    events = MC.ref_events(case)
    all_groups = set(str(v) for v in case["sf"])
    both = any(_both_signs(index, lam) for lam in lam_arrays)
    if case.get("cf") is not None:
        tags.append("control")
    if r < 1.0:
        tags.append("ratio<1")
    if any(set(ev["groups"]) != all_groups for ev in events):
        tags.append("missing_group")
    if both:
        tags.append("both_signs")
        if r == 1.0:
            tags.append("projection_active")
    if both or r < 1.0 or case.get("cf") is not None:
        tags.append("nt")
    tags.append(case["moment"])
    return tags


# ---- (i) (ii) (iii) (v) parity moments ------------------------------------------------------------------


def check_parity_identity(case):
    m = MC.load_parity(case)
    n = case["n"]
    index = m.index
    MC.split_index(index, "moment.index")
    J = len(index)
    if J == 0:
        raise Skip("no event occurs (empty index)")
    h = np.asarray(case["h"], dtype=float)
    h2 = np.asarray(case["h2"], dtype=float)
    lam = _lam_series(index, case["lam"])
    mu = _lam_series(index, case["lam2"])
    entries = index.tolist()

    # (i) unit multipliers x unit predictors
    g0 = _gamma(m, np.zeros(n), index)
    G = np.column_stack([_gamma(m, np.eye(n)[i], index) for i in range(n)])  # J x n
    W = np.zeros((J, n))
    for j in range(J):
        unit = pd.Series(0.0, index=index)
        unit.iloc[j] = 1.0
        W[j] = _weights(m.signed_weights(unit), n, "signed_weights(e_j)")
    diff = (G - g0[:, None]) + W / n
    bad = np.argwhere(np.abs(diff) > TOL)
    if len(bad):
        j, i = (int(v) for v in bad[0])
        need(False, f"entry {entries[j]!r}, row {i}: gamma_j(e_i) - gamma_j(0) = {float(G[j, i] - g0[j])!r} but "
                    f"-signed_weights(e_j)[i]/n = {float(-W[j, i] / n)!r} (ratio={MC.ratio_of(case['bound'])})")

    # (ii) affinity of gamma, linearity of signed_weights
    al = float(case["alpha"])
    gh, gh2 = _gamma(m, h, index), _gamma(m, h2, index)
    gmix = _gamma(m, al * h + (1 - al) * h2, index)
    need(bool(np.all(np.abs(gmix - (al * gh + (1 - al) * gh2)) <= TOL)),
         lambda: f"gamma is not affine: gamma({al}h+(1-{al})h') = {gmix.tolist()} vs "
                 f"{(al * gh + (1 - al) * gh2).tolist()}")
    a, b = float(case["a"]), float(case["b"])
    w_lam = _weights(m.signed_weights(lam), n, "signed_weights(lambda)")
    w_mu = _weights(m.signed_weights(mu), n, "signed_weights(mu)")
    w_mix = _weights(m.signed_weights(a * lam + b * mu), n, "signed_weights(a*lambda+b*mu)")
    scale = float(np.max(np.abs(a * w_lam)) + np.max(np.abs(b * w_mu)))
    need(bool(np.all(np.abs(w_mix - (a * w_lam + b * w_mu)) <= TOL * max(1.0, scale))),
         lambda: f"signed_weights is not linear: sw({a}*lam+{b}*mu) = {w_mix.tolist()} vs "
                 f"{(a * w_lam + b * w_mu).tolist()}")
    # unit basis reproduces a general multiplier (ties (i) to every lambda)
    lv = lam.to_numpy()
    need(bool(np.all(np.abs(w_lam - lv @ W) <= TOL * max(1.0, float(np.max(np.abs(w_lam)))))),
         lambda: f"signed_weights(lambda) = {w_lam.tolist()} != sum_j lambda_j signed_weights(e_j) = {(lv @ W).tolist()}")

    # the multiplier is a *labelled* vector: the same values attached to the constraint labels in another order are
    # another multiplier (asked right after the first, so an answer remembered by values alone shows)
    if len(lam) >= 2:
        m.signed_weights(lam)
        lam_rev = pd.Series(lv, index=lam.index[::-1])
        w_rev = _weights(m.signed_weights(lam_rev), n, "signed_weights(relabelled lambda)")
        exp_rev = lam_rev.reindex(lam.index).to_numpy() @ W
        need(bool(np.all(np.abs(w_rev - exp_rev) <= TOL * max(1.0, float(np.max(np.abs(exp_rev)))))),
             lambda: f"signed_weights of the multiplier values {lv.tolist()} attached to the labels in reversed order = {w_rev.tolist()}, "
                     f"expected sum_j lambda_j signed_weights(e_j) = {exp_rev.tolist()}")

    # (iii) a direct instance
    lhs = float(lv @ gh - lv @ gh2)
    rhs = float(-np.sum(w_lam * (h - h2)) / n)
    need(_close(lhs, rhs, float(np.sum(lv))),
         f"lambda.gamma(h) - lambda.gamma(h') = {lhs!r} but -(1/n) sum w_i (h_i - h'_i) = {rhs!r} "
         f"(lambda={lv.tolist()})")

    # (v) project_lambda
    bound = MC.as_series(m.bound(), "bound()")
    need(len(bound) == J, "bound() length differs from the index")
    bv = np.asarray(bound.reindex(index).to_numpy(), dtype=float)
    for name, vec in (("lambda", lam), ("mu", mu)):
        proj = m.project_lambda(vec.copy())
        need(isinstance(proj, pd.Series), lambda: f"project_lambda returned {type(proj).__name__}")
        need(len(proj) == J and not proj.index.has_duplicates and set(proj.index.tolist()) == set(entries),
             lambda: f"project_lambda index {proj.index.tolist()} != moment.index {entries}")
        pv = np.asarray(proj.reindex(index).to_numpy(), dtype=float)
        need(bool(np.all(np.isfinite(pv))), lambda: f"project_lambda({name}) not finite: {pv.tolist()}")
        need(bool(np.all(pv >= -1e-12)), lambda: f"project_lambda({vec.tolist()}) has negative entries: {pv.tolist()}")
        d = pv - vec.to_numpy()
        D0 = float(d @ (g0 - bv))
        Di = d @ (G - bv[:, None])  # D(e_i), i = 1..n
        dmin = D0 + float(np.sum(np.minimum(0.0, Di - D0)))
        need(dmin >= -TOL * max(1.0, float(np.sum(vec.to_numpy()))),
             lambda: f"project_lambda lowers the Lagrangian: min over h in [0,1]^n of L(h,proj) - L(h,lambda) = "
                     f"{dmin!r} (lambda={vec.tolist()}, projected={pv.tolist()}, bound={bv.tolist()})")

    tags = _class_tags(case, [lv, mu.to_numpy()], index)
    if not all(v in (0.0, 1.0) for v in list(case["h"]) + list(case["h2"])):
        tags.append("soft")
    tags.append("bound:" + case["bound"]["kind"])
    return tags


# ---- loss moments and the objective -----------------------------------------------------------------------


def check_loss_identity(case):
    if "loss" in case:
        return _check_bgl_identity(case)
    return _check_error_rate_identity(case)


def _check_bgl_identity(case):
    from fairlearn.reductions import BoundedGroupLoss

    n = case["n"]
    X = MC.build_X(case)
    y = MC._wrap(case, "y", "lab")
    sf = MC._wrap(case, "sf", "grp")
    m = BoundedGroupLoss(MC.make_loss(case["loss"]), upper_bound=case["upper_bound"])
    MC.load_reloaded(m, case, warm=lambda mm: mm.signed_weights(), only_sf=True)
    index = m.index
    lam = _lam_series(index, case["lam"])
    mu = _lam_series(index, case["lam2"])
    w = _weights(m.signed_weights(lam), n, "BoundedGroupLoss.signed_weights(lambda)")
    for key in ("h", "h2"):
        hv = case[key]
        loss = MC.ref_loss(case["loss"], case["y"], hv)
        g = MC.as_series(m.gamma(MC.predictor(hv)), "gamma(h)")
        need(len(g) == len(index), "gamma length differs from the index")
        gv = np.asarray(g.reindex(index).to_numpy(), dtype=float)
        lhs = float(lam.to_numpy() @ gv)
        rhs = float(np.sum(w * loss) / n)
        need(_close(lhs, rhs), f"lambda.gamma(h) = {lhs!r} but (1/n) sum w_i loss_i(h) = {rhs!r} "
                               f"(lambda={lam.tolist()}, w={w.tolist()})")
    a, b = float(case["a"]), float(case["b"])
    w_mu = _weights(m.signed_weights(mu), n, "signed_weights(mu)")
    w_mix = _weights(m.signed_weights(a * lam + b * mu), n, "signed_weights(a*lambda+b*mu)")
    need(bool(np.all(np.abs(w_mix - (a * w + b * w_mu)) <= TOL * max(1.0, float(np.max(np.abs(w_mix)))))),
         lambda: f"BoundedGroupLoss.signed_weights is not linear: {w_mix.tolist()} vs {(a * w + b * w_mu).tolist()}")
    proj = m.project_lambda(lam.copy())
    need(isinstance(proj, pd.Series) and len(proj) == len(lam)
         and bool(np.all(np.abs(proj.reindex(index).to_numpy() - lam.to_numpy()) <= 1e-12)),
         lambda: f"BoundedGroupLoss.project_lambda changed lambda: {proj!r}")

    # the default objective (MeanLoss): mean loss with signed_weights() (no multiplier)
    obj = m.default_objective()  # MeanLoss(loss)
    obj.load_data(X, y, sensitive_features=sf)
    w0 = _weights(obj.signed_weights(), n, "MeanLoss.signed_weights()")
    g = MC.as_series(obj.gamma(MC.predictor(case["h"])), "MeanLoss.gamma(h)")
    need(len(g) == 1, lambda: f"MeanLoss.gamma has {len(g)} entries")
    rhs = float(np.sum(w0 * MC.ref_loss(case["loss"], case["y"], case["h"])) / n)
    need(_close(float(g.iloc[0]), rhs), f"MeanLoss.gamma(h) = {float(g.iloc[0])!r} but (1/n) sum w_i loss_i = {rhs!r}")

    tags = ["bgl"]
    groups = MC.group_rows(case["sf"])
    if len(groups) >= 2 and list(case["h"]) != list(case["h2"]) and float(np.sum(lam)) > 0:
        tags.append("nt")
    if len(set(len(v) for v in groups.values())) > 1:
        tags.append("unequal_groups")
    return tags


def _check_error_rate_identity(case):
    n = case["n"]
    m = MC.load_reloaded(MC.make_error_rate(case["costs"]), case, warm=lambda mm: mm.signed_weights())
    w = _weights(m.signed_weights(), n, "ErrorRate.signed_weights()")

    def err(hv):
        g = MC.as_series(m.gamma(MC.predictor(hv)), "ErrorRate.gamma(h)")
        need(len(g) == 1, lambda: f"ErrorRate.gamma has {len(g)} entries")
        return float(g.iloc[0])

    h = np.asarray(case["h"], dtype=float)
    h2 = np.asarray(case["h2"], dtype=float)
    lhs = err(h) - err(h2)
    rhs = float(-np.sum(w * (h - h2)) / n)
    need(_close(lhs, rhs), f"error(h) - error(h') = {lhs!r} but -(1/n) sum w_i (h_i - h'_i) = {rhs!r} "
                           f"(costs={case['costs']}, w={w.tolist()})")
    e0 = err(np.zeros(n))
    for i in range(n):
        d = err(np.eye(n)[i]) - e0
        need(abs(d + w[i] / n) <= TOL * max(1.0, abs(w[i])),
             f"row {i}: error(e_i) - error(0) = {d!r} but -w_i/n = {float(-w[i] / n)!r} (costs={case['costs']})")
    c = float(case["a"])
    idx = list(m.index)
    wl = _weights(m.signed_weights(pd.Series([c], index=idx)), n, "ErrorRate.signed_weights(lambda)")
    need(bool(np.all(np.abs(wl - c * w) <= TOL * max(1.0, float(np.max(np.abs(c * w)))))),
         lambda: f"ErrorRate.signed_weights(lambda={c}) = {wl.tolist()} != {c} * signed_weights() = {(c * w).tolist()}")
    tags = ["error_rate"]
    if len(set(case["y"])) == 2 and list(case["h"]) != list(case["h2"]):
        tags.append("nt")
    cs = case["costs"]
    if cs is not None and cs["fp"] != cs["fn"]:
        tags.append("asymmetric_costs")
    return tags


# ---- (iv) best response through relabelling -------------------------------------------------------------------


def check_best_response(case):
    n = case["n"]
    X, y, kw = MC.build_data(case)
    cons = MC.make_parity_moment(case)
    cons.load_data(X, y, **kw)
    index = cons.index
    if len(index) == 0:
        raise Skip("no event occurs (empty index)")
    if case["costs"] is None and case.get("tie", 0) == 0:
        # the moment's own default objective; a second problem (another moment of the same kind with its default objective,
        # loaded with the rotated rows) is set up afterwards and stays alive: objectives of different problems share nothing
        obj = cons.default_objective()
        obj.load_data(X, y, **kw)
        other = MC.make_parity_moment(case)
        X2, y2, kw2 = MC.build_data(MC.rotated(case, 1 + len(case["y"]) // 2))
        other.load_data(X2, y2, **kw2)
        obj2 = other.default_objective()
        need(obj2 is not obj, "two moments hand out the same default objective object")
        obj2.load_data(X2, y2, **kw2)
        obj2.gamma(MC.predictor(np.zeros(n)))
    else:
        obj = MC.make_error_rate(case["costs"])
        obj.load_data(X, y, **kw)
    lam = _lam_series(index, case["lam"])
    lv = lam.to_numpy()

    w = _weights(obj.signed_weights(), n, "objective.signed_weights()") + _weights(
        cons.signed_weights(lam), n, "constraints.signed_weights(lambda)"
    )
    red_y = (w > 0).astype(int)
    red_w = np.abs(w)

    def value(hv):
        e = MC.as_series(obj.gamma(MC.predictor(hv)), "objective.gamma(h)")
        need(len(e) == 1, "objective gamma is not a single entry")
        return float(e.iloc[0]) + float(lv @ _gamma(cons, hv, index))

    levels = sorted(set(case["x"]))
    pos = {lvl: k for k, lvl in enumerate(levels)}
    col = np.array([pos[v] for v in case["x"]])
    best, best_tab = None, None
    for tab in itertools.product((0, 1), repeat=len(levels)):
        v = value(np.asarray(tab, dtype=float)[col])
        if best is None or v < best:
            best, best_tab = v, tab
    scale = max(1.0, abs(best), float(np.sum(lv)))

    est = ExactTable(n_levels=5, tie=int(case["tie"])).fit(X, red_y, sample_weight=red_w)
    got = value(np.asarray(est.predict(X), dtype=float))
    need(got <= best + TOL * scale,
         f"the exact minimiser of the weighted 0/1 error against labels 1[w>0] with weights |w| has "
         f"objective + lambda.gamma = {got!r}; brute force over {2 ** len(levels)} tables finds {best!r} "
         f"(table {best_tab} on levels {levels}; w={w.tolist()}, lambda={lv.tolist()})")

    tags = _class_tags(case, [lv], index)
    if len(set(red_y.tolist())) == 2:
        tags.append("relabel_both")
    if bool(np.any(red_y != np.asarray(case["y"]))):
        tags.append("labels_flipped")

    # the same through the library's own relabel/reweight step
    if float(np.sum(red_w)) > 1e-12:
        from fairlearn.reductions._exponentiated_gradient._lagrangian import _Lagrangian

        lag = _Lagrangian(
            X=X, y=y, estimator=ExactTable(n_levels=5, tie=int(case["tie"])),
            constraints=MC.make_parity_moment(case), B=10.0, objective=MC.make_error_rate(case["costs"]), **kw,
        )
        lam2 = pd.Series(lv, index=lag.constraints.index)
        need(lag.constraints.index.equals(index), "two loads of the same data give different indices")
        fitted = lag._call_oracle(lam2)
        got2 = value(np.asarray(fitted.predict(X), dtype=float).reshape(-1))
        need(got2 <= best + TOL * scale,
             f"_Lagrangian._call_oracle (relabel 1[w>0], reweight |w|) with an exact learner gives objective + "
             f"lambda.gamma = {got2!r}; brute-force minimum {best!r} (w={w.tolist()}, lambda={lv.tolist()})")
        tags.append("via_lagrangian")
    return tags


# ---- strategies ------------------------------------------------------------------------------------------------

_coef = st.one_of(st.sampled_from([0.0, 1.0, 0.5, 2.0]), st.floats(0.0, 5.0, allow_nan=False))
_lam = st.one_of(st.just(0.0), st.sampled_from([0.5, 1.0, 2.0, 3.0]), st.floats(0.0, 10.0, allow_nan=False))


@st.composite
def _identity_cases(draw):
    case = draw(MC.parity_case(n_pred=2, with_lambda=2))
    case["alpha"] = draw(st.one_of(st.sampled_from([0.5, 0.25, 0.0, 1.0]), st.floats(0.0, 1.0, allow_nan=False)))
    case["a"] = draw(_coef)
    case["b"] = draw(_coef)
    return case


@st.composite
def _loss_cases(draw):
    if draw(st.booleans()):
        case = draw(MC.loss_case(n_pred=2))
        case["lam"] = draw(st.lists(_lam, min_size=4, max_size=4))
        case["lam2"] = draw(st.lists(_lam, min_size=4, max_size=4))
    else:
        case = draw(MC.error_rate_case(n_pred=2))
    case["a"] = draw(_coef)
    case["b"] = draw(_coef)
    return case


@st.composite
def _best_response_cases(draw):
    case = draw(MC.parity_case(n_pred=0, with_lambda=1))
    case["costs"] = draw(MC.cost_spec())
    case["tie"] = draw(st.integers(0, 1))
    return case


def check_custom_utilities(case):
    """The generic UtilityParity moment with user-supplied utilities g(x, a, y, h=0), g(x, a, y, h=1) (two arbitrary
    real columns, not complementary) and events: gamma is the documented difference of conditional means of
    g0 + h (g1 - g0), and lambda.gamma(h) - lambda.gamma(h') = -(1/n) sum_i w_i (h_i - h'_i) with w = signed_weights(lambda)."""
    from fairlearn.reductions import UtilityParity

    n = len(case["g"])
    r = case["ratio"]
    m = UtilityParity(**({} if r is None else {"ratio_bound": r, "ratio_bound_slack": 0.0}))
    U = np.asarray(case["U"], dtype=float)
    y = pd.Series(case["y"])
    sf = pd.Series(case["g"])
    ev = pd.Series(case["event"])
    m.load_data(np.arange(n).reshape(-1, 1), y, sensitive_features=sf, event=ev, utilities=U)
    idx = m.index
    h, h2 = np.asarray(case["h"], dtype=float), np.asarray(case["h2"], dtype=float)
    rr = 1.0 if r is None else r

    def ref(hv):
        u = U[:, 0] + hv * (U[:, 1] - U[:, 0])
        out = {}
        for e in sorted(set(case["event"])):
            em = np.asarray([x == e for x in case["event"]])
            for grp in sorted(set(case["g"])):
                gm = em & np.asarray([x == grp for x in case["g"]])
                if gm.any():
                    out[("+", e, grp)] = rr * u[gm].mean() - u[em].mean()
                    out[("-", e, grp)] = rr * u[em].mean() - u[gm].mean()
        return out

    for hv in (h, h2):
        g = m.gamma(lambda X_: hv)
        e = ref(hv)
        need(set(g.index.tolist()) == set(e), f"gamma index {g.index.tolist()} != occurring (event, group) pairs {sorted(e)}")
        for k, v in e.items():
            need(abs(float(g[k]) - v) <= 1e-9, f"UtilityParity with custom utilities: gamma[{k}] = {float(g[k])!r}, from the rows: {v!r}")
    lam = pd.Series([case["lam"][i % len(case["lam"])] for i in range(len(idx))], index=idx)
    w = np.asarray(m.signed_weights(lam), dtype=float)
    lhs = float(lam @ m.gamma(lambda X_: h).reindex(idx)) - float(lam @ m.gamma(lambda X_: h2).reindex(idx))
    # the reduction minimises sum_i w_i * 1[h_i != 1[w_i > 0]]: predicting 1 on row i lowers lambda.gamma by w_i / n
    rhs = -float(np.sum(w * (h - h2))) / n
    need(abs(lhs - rhs) <= 1e-9 * max(1.0, float(lam.sum())),
         f"custom utilities: lambda.gamma(h) - lambda.gamma(h') = {lhs!r} but -(1/n) sum w_i (h_i - h'_i) = {rhs!r}; utilities {U.tolist()}")
    tags = ["nt"] if len(set(case["g"])) >= 2 and float(np.abs(h - h2).sum()) > 0 else []
    if np.abs(U[:, 0] + U[:, 1] - 1).max() > 1e-9:
        tags.append("non_complementary_utilities")
    return tags


@st.composite
def _custom_utility_cases(draw):
    k = draw(st.integers(2, 3))
    sizes = [draw(st.integers(1, 4)) for _ in range(k)]
    g = [lab for lab, sz in zip(["a", "b", "c"], sizes) for _ in range(sz)]
    n = len(g)
    g = [g[i] for i in draw(st.permutations(range(n)))]
    val = st.sampled_from([0.0, 1.0, 0.5, -1.0, 2.0, 0.25, 3.0])
    unit = st.sampled_from([0.0, 1.0, 0.5, 0.25])
    y = draw(st.lists(st.integers(0, 1), min_size=n, max_size=n))
    ev_mode = draw(st.sampled_from(["all", "label", "drawn"]))
    event = ["all"] * n if ev_mode == "all" else ["label=%d" % v for v in y] if ev_mode == "label" else draw(st.lists(st.sampled_from(["e1", "e2"]), min_size=n, max_size=n))
    return {"g": g, "y": y, "event": event, "U": [[draw(val), draw(val)] for _ in range(n)],
            "h": draw(st.lists(unit, min_size=n, max_size=n)), "h2": draw(st.lists(unit, min_size=n, max_size=n)),
            "lam": draw(st.lists(st.sampled_from([0.0, 1.0, 0.5, 2.0, 3.5]), min_size=2, max_size=6)),
            "ratio": draw(st.sampled_from([None, None, 0.8, 0.5]))}


SUBS = [
    Sub("custom_utilities", check_custom_utilities, strategy=_custom_utility_cases, quick=400, thorough=8000, shards=16,
        floors={"nt": 0.361, "non_complementary_utilities": 0.45}),
    Sub("parity_identity", check_parity_identity, strategy=_identity_cases, quick=800, thorough=20000, shards=16,
        floors={"nt": 0.383, "control": 0.197, "ratio<1": 0.16, "missing_group": 0.15, "soft": 0.268,
                "both_signs": 0.35, "projection_active": 0.182}),
    Sub("loss_identity", check_loss_identity, strategy=_loss_cases, quick=400, thorough=8000, shards=8,
        floors={"nt": 0.325, "bgl": 0.235, "error_rate": 0.187, "asymmetric_costs": 0.106, "unequal_groups": 0.15}),
    Sub("best_response", check_best_response, strategy=_best_response_cases, quick=300, thorough=5000, shards=16,
        shrink_quick=False,
        floors={"nt": 0.364, "control": 0.182, "ratio<1": 0.141, "relabel_both": 0.3, "labels_flipped": 0.3,
                "via_lagrangian": 0.444}),
]
