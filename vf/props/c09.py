"""C09 - GridSearch trains a faithful best response per grid point and picks the argmin.

Classification.  H = all functions of one categorical feature (enumerated); ``ExactTable`` is an exact
weighted 0/1-error minimiser over H, so the predictor trained for the multiplier lam must minimise
err(h) + lam.gamma(h) over H.  err and gamma are recomputed with plain numpy from each predictor's own
predictions on the training X (``redcommon.Problem``; gamma entries are matched to fairlearn's rows
through (sign, event, group) of the index, never by position).

Regression.  ``BoundedGroupLoss(SquareLoss(lo, hi))`` with ``ExactTableRegressor`` (exact weighted
least squares over all real functions of the level): gamma_g(f) = mean over group g of
(clip(y) - clip(f(x)))^2, the grid lives on the multipliers of the groups, the objective (mean loss) is
in their span, so predictor i must minimise lam_i.gamma(f).  Labels are generated inside [lo, hi], so
clipping never separates the learner's loss from the moment's loss and the minimiser is the
per-level weighted mean with per-row weight lam_g/n_g; the minimum value is evaluated in closed form.

Asserted (exactly the property statement): ``lambda_vecs_`` has grid_size pairwise distinct columns with
entries >= 0 and L1 norm <= grid_limit + 1e-9; one predictor / objective / gamma column per multiplier;
best response within 1e-9; recorded objectives_/gammas_ equal the first-principles values of that
predictor (1e-10); best_idx_ attains min_i (1-cw)*objective_i + cw*max(gamma_i) recomputed from first
principles (any minimiser within 1e-10 accepted); predict / predict_proba equal those of
predictors_[best_idx_] on the training rows and on a query containing every level.

Finding D11: when a label class the moment conditions on is missing from a group that is not the last
one in order of appearance, the moment's reduced basis has an all-zero column and ``lambda_vecs_``
contains duplicate columns.  The main generator builds data in which every (event, group) pair occurs
(mandatory rows, by construction; class 'all_pairs_occur'); sub-check ``parity_missing_pair`` searches
the region itself with every assertion except distinctness; PROBES holds concrete failing cases.

Finding D18 (found by this module, since repaired in /repo): with a loss moment and constant *float*
labels, fit took the "single label value" shortcut and built ``DummyClassifier(constant=np.float64(c))``,
which sklearn rejects (InvalidParameterError).  Constant labels are part of the ordinary 'bgl' search
(class 'labels_constant') and the minimal case is replayed from regressions/C09.
"""

from __future__ import annotations

import numpy as np
import pandas as pd
from hypothesis import strategies as st

from vf import redcommon as R
from vf.learners import ExactTable, ExactTableNested, ExactTableRegressor, ExactTableW
from vf.runner import PropertyViolation, Sub

PROPERTY = "C09"
LEVEL = "exploration"
RULE = (
    "Hypothesis draws n in [6,24] rows (level of one categorical feature with 2..5 levels, group out of "
    "2..4, label), one of the five parity moments with default / difference / ratio bound - every "
    "(event, group) pair occurs by construction (mandatory rows) in sub-check 'parity', at least one pair "
    "is missing by construction in 'parity_missing_pair' - or real labels on a quarter grid inside "
    "[lo, hi] with BoundedGroupLoss(SquareLoss) in 'bgl'; grid_size in [2,60], grid_limit in (0,5], "
    "constraint_weight in [0,1], containers. Non-trivial: the grid points produce >= 3 distinct predictors "
    "(distinct prediction vectors on the training rows) and the selected predictor is not an "
    "unconstrained optimum (its error / mean loss exceeds the minimum over the class)."
)
ASSUMPTIONS = [
    "ExactTable / ExactTableRegressor are exact minimisers of the weighted 0/1 error / weighted square loss over their class",
    "labels of the regression cases lie in [lo, hi] (otherwise the clipped loss of the moment is not the learner's loss)",
    "event names 'all', 'label=0', 'label=1' in the index of lambda_vecs_/gammas_ as documented for the moments",
    "tolerances: 1e-9 best response and L1 norm, 1e-10 recorded values and selection",
    "known finding D11 (duplicate multiplier vectors when a conditioned label class is missing from a group) is excluded "
    "from 'parity' by construction, probed, and searched without the distinctness assertion in 'parity_missing_pair'",
    "repaired finding D18 (constant float labels with BoundedGroupLoss) is inside the ordinary 'bgl' domain",
]

TOL_BR = 1e-9
TOL_REC = 1e-10


def _quiet():
    import logging

    logging.getLogger("fairlearn").setLevel(logging.ERROR)  # grid-size recommendations are not findings


def need(cond, msg):
    if not cond:
        raise PropertyViolation(msg)


def _grid_frames(gs, grid_size):
    lam, gam = gs.lambda_vecs_, gs.gammas_
    need(isinstance(lam, pd.DataFrame), f"lambda_vecs_ is {type(lam).__name__}")
    need(lam.shape[1] == grid_size, f"lambda_vecs_ has {lam.shape[1]} columns, grid_size={grid_size}")
    need(isinstance(gam, pd.DataFrame) and gam.shape[1] == grid_size,
         f"gammas_ has shape {getattr(gam, 'shape', None)}, expected {grid_size} columns")
    need(list(gam.columns) == list(lam.columns), f"gammas_ columns {list(gam.columns)} != lambda_vecs_ columns {list(lam.columns)}")
    need(len(gs.predictors_) == grid_size, f"{len(gs.predictors_)} predictors for grid_size={grid_size}")
    need(len(gs.objectives_) == grid_size, f"{len(gs.objectives_)} objectives for grid_size={grid_size}")
    bi = gs.best_idx_
    need(isinstance(bi, (int, np.integer)) and 0 <= int(bi) < grid_size, f"best_idx_={bi!r} is not a position in the grid")
    return lam, gam, int(bi)


def _check_vectors(lams, grid_limit, distinct):
    for k, v in enumerate(lams):
        need(np.all(np.isfinite(v)) and v.min() >= 0.0, f"lambda_vecs_ column {k} has a negative / non-finite entry: {v.tolist()}")
        need(v.sum() <= grid_limit + 1e-9, f"lambda_vecs_ column {k} has L1 norm {float(v.sum())!r} > grid_limit={grid_limit!r}")
    if distinct:
        seen = {}
        for k, v in enumerate(lams):
            key = tuple(v.tolist())
            need(key not in seen, f"lambda_vecs_ columns {seen.get(key)} and {k} are the same vector {v.tolist()}")
            seen[key] = k


def _check_selection(objs, maxgams, cw, bi, what, preds):
    """Returns the number of distinct predictors attaining the minimum (ties: any of them is accepted)."""
    losses = (1.0 - cw) * np.asarray(objs) + cw * np.asarray(maxgams)
    need(losses[bi] <= losses.min() + TOL_REC,
         f"best_idx_={bi} has {what} {float(losses[bi])!r}, but grid point {int(np.argmin(losses))} has {float(losses.min())!r} (cw={cw})")
    return len({preds[k] for k in range(len(preds)) if losses[k] <= losses.min() + TOL_REC})


def _check_delegation(gs, case, bi, proba):
    queries = [R.build_X(case), R.build_X(case, levels=[4, 3, 2, 1, 0, 0, 2])]
    for Xq in queries:
        a, b = np.asarray(gs.predict(Xq)), np.asarray(gs.predictors_[bi].predict(Xq))
        need(a.shape == b.shape and np.array_equal(a, b), f"predict {a.tolist()} != predictors_[best_idx_].predict {b.tolist()}")
        if proba:
            a, b = np.asarray(gs.predict_proba(Xq)), np.asarray(gs.predictors_[bi].predict_proba(Xq))
            need(a.shape == b.shape and np.array_equal(a, b), "predict_proba differs from predictors_[best_idx_].predict_proba")


# ---- parity moments -------------------------------------------------------------------------------------


def _check_parity(case, distinct):
    from fairlearn.reductions import GridSearch

    _quiet()
    X = R.build_X(case)
    y = R.build_vector(case, case["y_kind"], case["y"])
    sf = R.build_vector(case, case["sf_kind"], R.group_labels(case))
    grid_size, grid_limit, cw = case["grid_size"], case["grid_limit"], case["cw"]
    swn = bool(case.get("swn"))
    learner = ExactTableW if swn else (ExactTableNested if case.get("nested") else ExactTable)
    prior = case.get("prior_limit")
    cw0 = (1.0 - cw if abs(cw - 0.5) > 0.1 else 0.0) if prior else cw
    gs = GridSearch(learner(tie=case.get("tie", 0)), R.build_moment(case), constraint_weight=cw0,
                    grid_size=grid_size, grid_limit=prior if prior else grid_limit, **({"sample_weight_name": "w"} if swn else {}))
    def _fit(est):
        est.fit(X, y, sensitive_features=sf)

    if prior:
        # the same estimator object was constructed and used with another grid_limit and another constraint_weight (a sweep):
        # everything below is demanded of the refit
        _fit(gs)
        gs.set_params(grid_limit=grid_limit, constraint_weight=cw)
    _fit(gs)

    P = R.Problem(case)
    lam_df, gam_df, bi = _grid_frames(gs, grid_size)
    lams = [P.align(lam_df.iloc[:, k], f"lambda_vecs_ column {k}") for k in range(grid_size)]
    _check_vectors(lams, grid_limit, distinct)

    _, errs_H, gams_H = P.hypothesis_class()
    errs, maxg, preds = [], [], []
    for k in range(grid_size):
        pred = np.asarray(gs.predictors_[k].predict(X))
        e, g = P.error(pred), P.gamma(pred)
        value = e + float(lams[k] @ g)
        best = float(np.min(errs_H + gams_H @ lams[k]))
        need(abs(value - best) <= TOL_BR,
             f"predictor {k} has err + lambda.gamma = {value!r}; the minimum over H is {best!r} (lambda={lams[k].tolist()})")
        obj = gs.objectives_[k]
        need(np.ndim(obj) == 0 and abs(float(obj) - e) <= TOL_REC, f"objectives_[{k}]={float(obj)!r}, error of predictor {k} is {e!r}")
        rec = P.align(gam_df.iloc[:, k], f"gammas_ column {k}")
        need(np.max(np.abs(rec - g)) <= TOL_REC, f"gammas_ column {k} = {rec.tolist()}, gamma of predictor {k} = {g.tolist()}")
        errs.append(e)
        maxg.append(float(g.max()))
        preds.append(tuple(np.asarray(pred).astype(int).tolist()))
    n_min = _check_selection(errs, maxg, cw, bi, "(1-cw)*error + cw*max(gamma) =", preds)
    _check_delegation(gs, case, bi, proba=True)

    # the same multiplier vectors handed over through the documented ``grid=`` argument, in reversed column
    # order: one predictor per supplied vector, with the same objective / constraint values, and a selected
    # model that is as good as before
    if case.get("user_grid"):
        import fairlearn.reductions as fr

        G = gs.lambda_vecs_.iloc[:, ::-1].copy()
        if case.get("grid_size", 0) % 2 == 0:
            G = G.iloc[::-1]  # the user's grid lists the constraints in another order than the moment's index
        swn2 = bool(case.get("swn"))
        gs2 = fr.GridSearch((ExactTableW if swn2 else ExactTable)(tie=case.get("tie", 0)), R.build_moment(case),
                            constraint_weight=cw, grid=G, **({"sample_weight_name": "w"} if swn2 else {}))
        gs2.fit(X, R.build_vector(case, case["y_kind"], case["y"]),
                sensitive_features=R.build_vector(case, case["sf_kind"], R.group_labels(case)))
        need(len(gs2.predictors_) == grid_size, f"user grid of {grid_size} vectors produced {len(gs2.predictors_)} predictors")
        # entry by entry *by label*: the recorded vectors are the user's vectors, whatever order the rows came in
        L2 = gs2.lambda_vecs_
        need(sorted(map(str, L2.index.tolist())) == sorted(map(str, G.index.tolist())), "lambda_vecs_ has other constraint labels than the user-supplied grid")
        need(np.allclose(np.asarray(L2.values, float), np.asarray(G.reindex(L2.index).values, float), rtol=0, atol=0),
             "lambda_vecs_ differs from the user-supplied grid (compared by constraint label)")
        for k in range(grid_size):
            gam_k = P.align(gs2.gammas_.iloc[:, k], f"gammas_ column {k}")
            real_k = P.gamma(np.asarray(gs2.predictors_[k].predict(X)))
            need(np.allclose(np.asarray(gam_k, float), np.asarray(real_k, float), rtol=0, atol=TOL_REC),
                 f"user grid: gammas_ column {k} is not the constraint vector of predictor {k} (by label)")
        for k in range(grid_size):
            j = grid_size - 1 - k
            need(abs(float(gs2.objectives_[k]) - errs[j]) <= TOL_REC,
                 f"user grid: objectives_[{k}] = {float(gs2.objectives_[k])!r}, the predictor of the same vector had error {errs[j]!r}")
        v2 = (1 - cw) * float(gs2.objectives_[gs2.best_idx_]) + cw * float(np.max(P.gamma(np.asarray(gs2.predictors_[gs2.best_idx_].predict(X)))))
        v1 = (1 - cw) * errs[bi] + cw * maxg[bi]
        need(abs(v1 - v2) <= 1e-9, f"user grid (reversed order): selected trade-off value {v2!r}, generated grid selected {v1!r}")

    tags = ["m:" + case["moment"], "groups%d" % len(P.group_values)]
    if case.get("prior_limit"):
        tags.append("refit_after_other_grid_limit")
    if case.get("user_grid"):
        tags.append("user_grid")
    if case.get("nested") and not swn:
        tags.append("learner_with_nested_state")
    n_distinct = len(set(preds))
    if n_distinct >= 3 and errs[bi] > float(errs_H.min()) + 1e-12:
        tags.append("nt")
    if n_distinct >= 3:
        tags.append("predictors>=3")
    if errs[bi] > float(errs_H.min()) + 1e-12:
        tags.append("selected_not_unconstrained")
    if not R.has_missing_pair(case):
        tags.append("all_pairs_occur")
    else:
        tags.append("missing_pair")
    if P.ratio < 1:
        tags.append("ratio<1")
    if n_min > 1:
        tags.append("selection_tie")
    if int(np.argmin(errs)) != bi and errs[bi] > min(errs) + 1e-12:
        tags.append("selected_not_min_error")
    if any(type(p).__name__ == "DummyClassifier" for p in gs.predictors_):
        tags.append("dummy_used")
        if any(type(p).__name__ == "DummyClassifier" and
               float(np.max(np.abs(P.gamma(np.asarray(p.predict(X)))))) > 1e-9 for p in gs.predictors_):
            tags.append("dummy_with_nonzero_gamma")  # a constant classifier that still violates parity (ratio < 1, error-rate parity)
    if grid_size >= 20:
        tags.append("grid>=20")
    return tags


def check_parity(case):
    return _check_parity(case, distinct=True)


def check_parity_missing(case):
    need(R.has_missing_pair(case), "harness: case of parity_missing_pair has no missing (event, group) pair")
    return _check_parity(case, distinct=False)


# ---- bounded group loss ------------------------------------------------------------------------------------


def _bgl_align(series, groups, what):
    need(isinstance(series, pd.Series), f"{what} is {type(series).__name__}")
    got = {}
    for idx, v in zip(series.index.tolist(), series.to_numpy(dtype=float).tolist()):
        k = idx.item() if isinstance(idx, np.generic) else idx
        need(k not in got, f"{what}: duplicate index entry {k!r}")
        got[k] = v
    need(set(got) == set(groups), f"{what}: index {sorted(map(str, got))} != groups {sorted(map(str, groups))}")
    return np.asarray([got[g] for g in groups], dtype=float)


def check_bgl(case):
    from fairlearn.reductions import BoundedGroupLoss, GridSearch, SquareLoss

    _quiet()
    X = R.build_X(case)
    y = R.build_vector(case, case["y_kind"], case["y"])
    labels = R.group_labels(case)
    sf = R.build_vector(case, case["sf_kind"], labels)
    lo, hi = case["lo"], case["hi"]
    grid_size, grid_limit, cw = case["grid_size"], case["grid_limit"], case["cw"]
    gs = GridSearch(ExactTableRegressor(), BoundedGroupLoss(SquareLoss(lo, hi), upper_bound=case["ub"]),
                    constraint_weight=cw, grid_size=grid_size, grid_limit=grid_limit)
    gs.fit(X, y, sensitive_features=sf)

    yv = np.clip(np.asarray(case["y"], dtype=float), lo, hi)
    levels = np.asarray(case["levels"], dtype=int)
    groups = []
    for v in labels:
        if v not in groups:
            groups.append(v)
    gmask = [np.asarray([x == gv for x in labels], dtype=bool) for gv in groups]
    n = len(yv)

    def losses_of(pred):
        p = np.asarray(pred, dtype=float)
        if p.ndim == 2 and p.shape[1] == 1:
            p = p[:, 0]
        need(p.shape == (n,) and np.all(np.isfinite(p)), f"predictions of shape {np.shape(pred)} / non-finite")
        return (yv - np.clip(p, lo, hi)) ** 2

    def min_weighted(c):
        """min over functions of the level of sum_i c_i (y_i - f(level_i))^2, c >= 0."""
        total = 0.0
        for lv in set(levels.tolist()):
            m = levels == lv
            cs = c[m].sum()
            if cs > 0:
                v = float((c[m] * yv[m]).sum() / cs)
                total += float((c[m] * (yv[m] - v) ** 2).sum())
        return total

    lam_df, gam_df, bi = _grid_frames(gs, grid_size)
    lams = [_bgl_align(lam_df.iloc[:, k], groups, f"lambda_vecs_ column {k}") for k in range(grid_size)]
    _check_vectors(lams, grid_limit, distinct=True)

    objs, maxg, preds = [], [], []
    for k in range(grid_size):
        pred = np.asarray(gs.predictors_[k].predict(X), dtype=float)
        ls = losses_of(pred)
        g = np.asarray([float(ls[m].mean()) for m in gmask])
        value = float(lams[k] @ g)
        c = np.zeros(n)
        for j, m in enumerate(gmask):
            c[m] = lams[k][j] / m.sum()
        best = min_weighted(c)
        need(abs(value - best) <= TOL_BR * max(1.0, abs(best)),
             f"regressor {k} has lambda.gamma = {value!r}; the minimum over functions of the level is {best!r} (lambda={lams[k].tolist()})")
        obj = gs.objectives_[k]
        need(np.ndim(obj) == 0 and abs(float(obj) - float(ls.mean())) <= TOL_REC,
             f"objectives_[{k}]={float(obj)!r}, mean loss of regressor {k} is {float(ls.mean())!r}")
        rec = _bgl_align(gam_df.iloc[:, k], groups, f"gammas_ column {k}")
        need(np.max(np.abs(rec - g)) <= TOL_REC, f"gammas_ column {k} = {rec.tolist()}, group losses of regressor {k} = {g.tolist()}")
        objs.append(float(ls.mean()))
        maxg.append(float(g.max()))
        preds.append(tuple(np.round(pred, 12).tolist()))
    n_min = _check_selection(objs, maxg, cw, bi, "(1-cw)*mean loss + cw*max group loss =", preds)
    _check_delegation(gs, case, bi, proba=False)

    tags = ["bgl", "groups%d" % len(groups)]
    if len(set(case["y"])) == 1:
        tags.append("labels_constant")
    best_mean = min_weighted(np.full(n, 1.0 / n))
    n_distinct = len(set(preds))
    if n_distinct >= 3 and objs[bi] > best_mean + 1e-12:
        tags.append("nt")
    if n_distinct >= 3:
        tags.append("predictors>=3")
    if objs[bi] > best_mean + 1e-12:
        tags.append("selected_not_unconstrained")
    if n_min > 1:
        tags.append("selection_tie")
    if grid_size >= 20:
        tags.append("grid>=20")
    return tags


# ---- strategies ------------------------------------------------------------------------------------------------

# biased towards the region where the grid reaches past the unconstrained optimum (grid_limit >= 1,
# grid_size >= 10, constraint_weight >= 0.5); the rest of the stated ranges stays covered
_grid_size = st.one_of(st.integers(10, 60), st.integers(20, 60), st.integers(30, 60), st.integers(2, 60), st.integers(2, 9))
_grid_limit = st.one_of(st.sampled_from([1.0, 2.0, 3.0, 5.0]), st.sampled_from([2.0, 4.0, 5.0]), st.sampled_from([1.5, 2.5, 5.0]),
                        st.one_of(st.sampled_from([0.1, 0.5]), st.floats(0.01, 5.0, allow_nan=False)))
_cw = st.one_of(st.sampled_from([0.5, 0.75, 0.9, 1.0]), st.sampled_from([0.6, 0.8, 0.95, 1.0]), st.sampled_from([0.7, 0.85, 0.99]),
                st.one_of(st.sampled_from([0.0, 0.25]), st.floats(0.0, 1.0, allow_nan=False)))


def _with_grid(draw, case):
    case["grid_size"] = draw(_grid_size)
    case["grid_limit"] = draw(_grid_limit)
    case["cw"] = draw(_cw)
    # error-rate parity with a wide grid is where single-label relabelled problems (DummyClassifier) meet
    # constant classifiers that still violate parity: make that corner frequent
    if case.get("moment") == "ErrorRateParity" and draw(st.integers(0, 2)) > 0:
        case["grid_limit"] = draw(st.sampled_from([2.0, 3.0, 5.0]))
        case["grid_size"] = max(case["grid_size"], 10)
    if draw(st.integers(0, 3)) == 0:
        case["prior_limit"] = draw(st.sampled_from([0.5, 2.0, 4.0, 10.0]))
    return case


@st.composite
def _parity_cases(draw):
    return _with_grid(draw, draw(R.reduction_data(min_groups=2, max_groups=4, pairs="complete")))


@st.composite
def _wide_grid_cases(draw):
    """Wide grids on error-rate parity / ratio bounds: some relabelled problems become single-label
    (DummyClassifier) while the constant classifier still violates parity (class dummy_with_nonzero_gamma)."""
    case = draw(R.reduction_data(min_groups=2, max_groups=3, pairs="complete"))
    if draw(st.booleans()):
        case["moment"] = "ErrorRateParity"
    else:
        case["bound"] = {"kind": "ratio", "ratio": draw(st.sampled_from([0.5, 0.7, 0.9])), "slack": draw(st.sampled_from([0.0, 0.02]))}
    case["grid_size"] = draw(st.integers(10, 40))
    case["grid_limit"] = draw(st.sampled_from([3.0, 5.0, 5.0]))
    case["cw"] = draw(_cw)
    if case["moment"] in ("ErrorRateParity", "DemographicParity") and draw(st.integers(0, 3)) > 0:
        # labels largely determined by the group: a multiplier on one group then flips all of its rows and the
        # relabelled problem has a single label
        g0 = case["groups"][0]
        case["y"] = [int((g == g0) != (draw(st.integers(0, 5)) == 0)) for g in case["groups"]]
        if len(set(case["y"])) < 2:
            case["y"][0] = 1 - case["y"][0]
    return case


@st.composite
def _missing_cases(draw):
    return _with_grid(draw, draw(R.reduction_data(min_groups=2, max_groups=4, pairs="missing")))


@st.composite
def _bgl_cases(draw):
    n_groups = draw(st.integers(2, 4))
    n_levels = draw(st.integers(2, 5))
    lo, hi = draw(st.sampled_from([(0.0, 1.0), (-1.0, 1.0), (0.0, 2.0), (-2.0, 3.0)]))
    steps = int(round((hi - lo) * 4))
    yval = st.integers(0, steps).map(lambda k: lo + 0.25 * k)
    level = st.integers(0, n_levels - 1)
    # group-specific offsets so that the groups' losses differ and pull the fit apart
    centre = [draw(st.integers(0, steps)) for _ in range(n_groups)]
    # one mandatory row per group; about one case in twelve has constant labels (region of repaired D18)
    constant = draw(st.integers(0, 11)) == 0
    k0 = draw(st.integers(0, steps))
    k1 = (k0 + draw(st.integers(1, steps))) % (steps + 1)
    if constant:
        yval = st.just(lo + 0.25 * k0)
        k1 = k0
        centre = [k0] * n_groups
    rows = [(draw(level), 0, lo + 0.25 * k0), (draw(level), 1, lo + 0.25 * k1)]
    rows += [(draw(level), g, draw(yval)) for g in range(2, n_groups)]
    n = draw(st.integers(max(6, len(rows)), 24))
    while len(rows) < n:
        g = draw(st.integers(0, n_groups - 1))
        if constant or draw(st.integers(0, 2)) == 2:
            yv = draw(yval)
        else:
            yv = lo + 0.25 * min(steps, max(0, centre[g] + draw(st.integers(-1, 1))))
        rows.append((draw(level), g, yv))
    perm = draw(st.permutations(range(n)))
    rows = [rows[i] for i in perm]
    case = {
        "levels": [r[0] for r in rows],
        "groups": [r[1] for r in rows],
        "y": [float(r[2]) for r in rows],
        "n_levels": n_levels,
        "alphabet": draw(st.sampled_from(sorted(R.GROUP_ALPHABETS))),
        "lo": lo,
        "hi": hi,
        "ub": draw(st.sampled_from([0.05, 0.1, 0.5, 1.0])),
        "x_kind": draw(st.sampled_from(["ndarray", "frame"])),
        "y_kind": draw(st.sampled_from(["list", "ndarray", "series"])),
        "sf_kind": draw(st.sampled_from(["list", "ndarray", "series"])),
        "index": draw(st.sampled_from(["default", "default", "offset"])),
    }
    return _with_grid(draw, case)


# ---- known finding D11 ---------------------------------------------------------------------------------------------


def in_d11(sub_name, case):
    """Input region of D11: the distinctness assertion on data where some group lacks a label class the
    moment conditions on (only sub-check 'parity' asserts distinctness)."""
    return sub_name == "parity" and "moment" in case and R.has_missing_pair(case)


def in_d18(sub_name, case):
    """Input region of D18: bounded group loss with constant real-valued labels."""
    return sub_name == "bgl" and len(set(case["y"])) == 1


REGIONS = {"D11": in_d11}

_D18_PROBE = {
    "alphabet": "int", "cw": 0.0, "grid_limit": 0.5, "grid_size": 2, "groups": [0, 1, 0, 0, 0, 0], "hi": 1.0,
    "index": "default", "levels": [0, 0, 0, 0, 0, 0], "lo": 0.0, "n_levels": 2, "sf_kind": "list", "ub": 0.05,
    "x_kind": "ndarray", "y": [0.0, 0.0, 0.0, 0.0, 0.0, 0.0], "y_kind": "list",
}


def _d11_probe(moment, groups, y, levels):
    return {
        "levels": levels, "groups": groups, "y": y, "n_levels": 2, "alphabet": "int", "moment": moment,
        "bound": {"kind": "default"}, "x_kind": "ndarray", "y_kind": "list", "sf_kind": "list", "index": "default",
        "tie": 0, "grid_size": 10, "grid_limit": 1.0, "cw": 0.5,
    }


# found by searching 'parity_missing_pair' cases with the distinctness assertion switched on (56 of 120 failed)
_D11_PROBES = [
    # group 0 has no positive: TPR parity has one basis column, all zero -> ten identical zero vectors
    _d11_probe("TruePositiveRateParity", [0, 1, 0, 0, 0, 0], [0, 1, 0, 0, 0, 0], [0, 0, 0, 0, 0, 0]),
    # group 0 has no negative
    _d11_probe("FalsePositiveRateParity", [0, 1, 0, 0, 1, 0], [1, 0, 1, 1, 1, 1], [0, 1, 0, 1, 1, 0]),
    # equalized odds: ('label=0', group 0) missing -> one of two basis columns is zero
    _d11_probe("EqualizedOdds", [0, 1, 1, 0, 0, 0], [1, 0, 1, 1, 1, 1], [0, 0, 1, 0, 1, 0]),
]
PROBES = {"D11": [("parity", c) for c in _D11_PROBES]}

SUBS = [
    Sub("parity", check_parity, strategy=_parity_cases, quick=288, thorough=4000, shards=12, shrink_quick=False,
        floors={"nt": 0.091, "all_pairs_occur": 0.9, "predictors>=3": 0.25, "ratio<1": 0.1, "grid>=20": 0.2,
                "m:DemographicParity": 0.08, "m:TruePositiveRateParity": 0.077, "m:FalsePositiveRateParity": 0.08,
                "m:EqualizedOdds": 0.075, "m:ErrorRateParity": 0.066, "groups4": 0.1, "selected_not_min_error": 0.1,
                }),
    Sub("parity_wide_grid", check_parity, strategy=_wide_grid_cases, quick=192, thorough=2000, shards=12, shrink_quick=False,
        floors={"dummy_used": 0.054, "dummy_with_nonzero_gamma": 0.012}),
    Sub("parity_missing_pair", check_parity_missing, strategy=_missing_cases, quick=40, thorough=800, shards=4,
        shrink_quick=False, floors={"missing_pair": 0.9, "predictors>=3": 0.05}),
    Sub("bgl", check_bgl, strategy=_bgl_cases, quick=60, thorough=1200, shards=6, shrink_quick=False,
        floors={"bgl": 0.9, "labels_constant": 0.02, "nt": 0.2, "predictors>=3": 0.3, "groups3": 0.1, "groups4": 0.1}),
]
