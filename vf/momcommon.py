"""Shared generators, builders and first-principles references for the reduction moments (C06, C07).

A *moment case* is plain JSON:

    {"n", "y": [0/1], "sf": [group values], "cf": None | [stratum values], "x": [levels 0..4],
     "x_kind": "ndarray"|"dataframe", "x_index", "y_kind", "y_index", "sf_kind", "sf_index",
     "cf_kind", "cf_index", "moment": one of MOMENTS, "bound": {"kind": "default"} |
     {"kind": "diff", "eps"} | {"kind": "ratio", "r", "slack"}, "h": [predictions], ...}

Rows are matched by position everywhere (fairlearn converts every argument to a positional Series).
The references below use nothing but the rows of the case: no pandas groupby, no fairlearn.
"""

from __future__ import annotations

import itertools

import numpy as np
import pandas as pd
from hypothesis import strategies as st

from vf import gen
from vf.runner import PropertyViolation

TOL = 1e-9

MOMENTS = [
    "DemographicParity",
    "TruePositiveRateParity",
    "FalsePositiveRateParity",
    "EqualizedOdds",
    "ErrorRateParity",
]
# label classes a moment conditions on; None = all rows of the stratum form one event
EVENT_CLASSES = {
    "DemographicParity": [None],
    "TruePositiveRateParity": [1],
    "FalsePositiveRateParity": [0],
    "EqualizedOdds": [0, 1],
    "ErrorRateParity": [None],
}
GROUP_ALPHABETS = ["str", "str2", "int", "int2"]
VEC_KINDS = ["list", "ndarray", "ndarray2d", "series", "dataframe"]


def need(cond, msg):
    """Raise PropertyViolation(msg) unless cond; msg may be a zero-argument callable (lazy formatting)."""
    if not cond:
        raise PropertyViolation(msg() if callable(msg) else msg)


# ---- strategies ------------------------------------------------------------------------------------

_unit = st.one_of(
    st.sampled_from([0.0, 1.0, 0.5, 0.25, 0.75, 1.0 / 3.0]),
    st.floats(0.0, 1.0, allow_nan=False),
)
_slack = st.one_of(st.sampled_from([0.0, 0.01, 0.05, 0.1, 0.5]), st.floats(0.0, 1.0, allow_nan=False))
_ratio = st.one_of(st.sampled_from([1.0, 0.5, 0.8, 0.9, 0.25]), st.floats(0.01, 1.0, allow_nan=False))


@st.composite
def bound_spec(draw):
    kind = draw(st.sampled_from(["default", "diff", "ratio", "ratio"]))
    if kind == "default":
        return {"kind": "default"}
    if kind == "diff":
        return {"kind": "diff", "eps": draw(_slack)}
    return {"kind": "ratio", "r": draw(_ratio), "slack": draw(_slack)}


@st.composite
def prediction_vector(draw, n, mode=None):
    mode = mode or draw(st.sampled_from(["hard", "hard", "soft", "soft", "const"]))
    if mode == "hard":
        return [float(b) for b in draw(st.lists(st.integers(0, 1), min_size=n, max_size=n))]
    if mode == "soft":
        return draw(st.lists(_unit, min_size=n, max_size=n))
    return [draw(_unit)] * n


@st.composite
def _containers(draw, names):
    out = {}
    for nm in names:
        out[nm + "_kind"] = draw(st.sampled_from(VEC_KINDS + (["series_categorical", "dataframe_categorical"] if nm in ("sf", "cf") else [])))
        out[nm + "_index"] = draw(st.sampled_from(["rev", "offset", "dup", "str", "shuffled"]))
    return out


@st.composite
def grouped_rows(draw, binary=True):
    """Rows (stratum, group, label) with frequent empty (stratum, label, group) cells.

    2..4 groups and 0 or 1..3 strata; every group and every stratum occurs at least once;
    n in [2, 20].  Returns {"n", "sf", "cf", "y"(binary only)}.
    """
    galpha = gen.ALPHABETS[draw(st.sampled_from(GROUP_ALPHABETS))]
    k = draw(st.sampled_from([2, 2, 3, 3, 4, 2, 3, 4, 12, 25]))
    if k > 4:
        # many groups: labels whose string order differs from their numeric order ('g10' < 'g2'; 10 < 9 as strings)
        galpha = draw(st.sampled_from([["g%d" % i for i in range(30)], list(range(30)), [3 * i - 20 for i in range(30)]]))
    groups = list(draw(st.permutations(galpha)))[:k]
    has_cf = draw(st.booleans())
    if has_cf:
        calpha = gen.ALPHABETS[draw(st.sampled_from(GROUP_ALPHABETS))]
        s = draw(st.sampled_from([1, 2, 2, 3]))
        strata = list(draw(st.permutations(calpha)))[:s]
    else:
        strata = [None]
    labels = [0, 1] if binary else [0]
    cells = list(itertools.product(range(len(strata)), range(k), labels))
    dense = draw(st.sampled_from([False, False, True]))
    if dense:
        active = list(cells)
    else:
        active = [c for c in cells if draw(st.integers(0, 9)) < 6]
    n_cover = max(k, len(strata))
    n = draw(st.integers(max(2, n_cover), max(20, n_cover + 15)))
    rows = []
    if dense and n >= len(cells):
        rows = list(cells)
    else:
        for i in range(n_cover):
            rows.append((i % len(strata), i % k, draw(st.sampled_from(labels))))
    pool = active or rows
    while len(rows) < n:
        rows.append(draw(st.sampled_from(pool)))
    rows = [rows[i] for i in draw(st.permutations(range(n)))]
    out = {
        "n": n,
        "sf": [groups[r[1]] for r in rows],
        "cf": [strata[r[0]] for r in rows] if has_cf else None,
    }
    if binary:
        out["y"] = [r[2] for r in rows]
    return out


@st.composite
def parity_case(draw, n_pred=1, with_lambda=0, moments=MOMENTS):
    """Dataset + parity moment + bound + n_pred prediction vectors (+ with_lambda multiplier lists)."""
    case = draw(grouped_rows())
    n = case["n"]
    L = draw(st.integers(2, 5))
    case["x"] = draw(st.lists(st.integers(0, L - 1), min_size=n, max_size=n))
    case["x_kind"] = draw(st.sampled_from(["ndarray", "dataframe"]))
    case["x_index"] = draw(st.sampled_from(gen.INDEX_PLANS))
    case.update(draw(_containers(["y", "sf", "cf"])))
    case["moment"] = draw(st.sampled_from(list(moments)))
    case["bound"] = draw(bound_spec())
    hmode = draw(st.sampled_from(["hard", "soft", "soft", "mixed"]))
    for j in range(n_pred):
        key = "h" if j == 0 else f"h{j + 1}"
        mode = hmode if hmode != "mixed" else None
        case[key] = draw(prediction_vector(n, mode))
    if with_lambda:
        m = 2 * count_pairs(case)
        lam = st.one_of(
            st.just(0.0), st.sampled_from([0.5, 1.0, 2.0, 3.0]), st.floats(0.0, 10.0, allow_nan=False)
        )
        for j in range(with_lambda):
            case["lam" if j == 0 else f"lam{j + 1}"] = draw(
                st.lists(lam, min_size=max(m, 1), max_size=max(m, 1))
            )
    case["preload"] = draw(st.sampled_from([0, 0, 0, 1, 2, 3]))
    case["y_dtype"] = draw(st.sampled_from(gen.LABEL_DTYPES))
    case["h_dtype"] = draw(st.sampled_from([None, None, "uint8", "bool", "int8", "int64"]))
    return case


@st.composite
def error_rate_case(draw, n_pred=1):
    case = draw(grouped_rows())
    n = case["n"]
    case["x"] = draw(st.lists(st.integers(0, 4), min_size=n, max_size=n))
    case["x_kind"] = draw(st.sampled_from(["ndarray", "dataframe"]))
    case["x_index"] = draw(st.sampled_from(gen.INDEX_PLANS))
    case.update(draw(_containers(["y", "sf", "cf"])))
    case["costs"] = draw(cost_spec())
    for j in range(n_pred):
        case["h" if j == 0 else f"h{j + 1}"] = draw(prediction_vector(n))
    case["preload"] = draw(st.sampled_from([0, 0, 1, 2, 3]))
    case["y_dtype"] = draw(st.sampled_from(gen.LABEL_DTYPES))
    case["h_dtype"] = draw(st.sampled_from([None, None, "uint8", "bool", "int8", "int64"]))
    return case


@st.composite
def cost_spec(draw):
    cost = st.one_of(st.sampled_from([0.0, 1.0, 0.5, 2.0, 3.0, 1, 2, 0]), st.floats(0.0, 10.0, allow_nan=False))
    if draw(st.integers(0, 3)) == 0:
        return None
    fp, fn = draw(cost), draw(cost)
    if fp + fn <= 0:
        fp = 1.0
    return {"fp": fp, "fn": fn}


_real = st.one_of(
    st.sampled_from([0.0, 1.0, 0.5, -0.5, 1.5, 2.0, 0.25]), st.floats(-2.0, 3.0, allow_nan=False)
)


@st.composite
def loss_case(draw, n_pred=1):
    """Real targets, groups, a bounded loss and real predictions (BoundedGroupLoss / MeanLoss)."""
    case = draw(grouped_rows(binary=False))
    case["cf"] = None  # loss moments take no control features
    n = case["n"]
    case["x"] = draw(st.lists(st.integers(0, 4), min_size=n, max_size=n))
    case["x_kind"] = draw(st.sampled_from(["ndarray", "dataframe"]))
    case["x_index"] = draw(st.sampled_from(gen.INDEX_PLANS))
    case.update(draw(_containers(["y", "sf"])))
    case["y"] = draw(st.lists(_real, min_size=n, max_size=n))
    loss = draw(st.sampled_from(["square", "absolute", "zero_one"]))
    if loss == "zero_one":
        case["loss"] = {"kind": loss}
    else:
        lo = draw(st.sampled_from([0.0, 0.0, -1.0, 0.5, -0.25]))
        width = draw(st.sampled_from([1.0, 1.0, 0.5, 2.0, 3.5]))
        case["loss"] = {"kind": loss, "lo": lo, "hi": lo + width}
    case["upper_bound"] = draw(st.one_of(st.sampled_from([0.1, 0.0, 1.0]), st.floats(0.0, 5.0, allow_nan=False)))
    for j in range(n_pred):
        case["h" if j == 0 else f"h{j + 1}"] = draw(st.lists(_real, min_size=n, max_size=n))
    if draw(st.integers(0, 2)) == 0:
        # a classification problem under a loss moment: 0/1 labels and hard predictions in whatever element type
        case["y"] = [float(v) for v in draw(st.lists(st.integers(0, 1), min_size=n, max_size=n))]
        for j in range(n_pred):
            case["h" if j == 0 else f"h{j + 1}"] = [float(v) for v in draw(st.lists(st.integers(0, 1), min_size=n, max_size=n))]
        case["y_dtype"] = draw(st.sampled_from(gen.LABEL_DTYPES))
        case["h_dtype"] = draw(st.sampled_from([None, "uint8", "bool", "int8", "int64"]))
    case["preload"] = draw(st.sampled_from([0, 0, 1, 2, 3]))
    return case


# ---- builders ----------------------------------------------------------------------------------------


def build_X(case):
    col = np.asarray(case["x"], dtype=int).reshape(-1, 1)
    if case.get("x_kind", "ndarray") == "dataframe":
        return pd.DataFrame({"f0": col[:, 0]}, index=gen.make_index(case.get("x_index", "default"), len(col)))
    return col


def _wrap(case, key, name):
    if key == "y" and case.get("y_dtype"):
        # 0/1 labels in the element type a user's pipeline happens to produce (bool, uint8 from a comparison, ...)
        return gen.typed_vector(case.get("y_kind", "list"), case["y"], case.get("y_index", "rev"), name=name, dtype=case["y_dtype"])
    return gen.wrap_vector(case.get(key + "_kind", "list"), case[key], case.get(key + "_index", "rev"), name=name)


def build_data(case):
    """(X, y, kwargs) exactly as handed to ``Moment.load_data``."""
    X = build_X(case)
    y = _wrap(case, "y", "lab")
    kw = {"sensitive_features": _wrap(case, "sf", "grp")}
    if case.get("cf") is not None:
        kw["control_features"] = _wrap(case, "cf", "ctl")
    return X, y, kw


def bound_kwargs(bound):
    if bound["kind"] == "default":
        return {}
    if bound["kind"] == "diff":
        return {"difference_bound": bound["eps"]}
    return {"ratio_bound": bound["r"], "ratio_bound_slack": bound["slack"]}


def ratio_of(bound):
    return bound["r"] if bound["kind"] == "ratio" else 1.0


def slack_of(bound):
    if bound["kind"] == "default":
        return 0.01
    if bound["kind"] == "diff":
        return bound["eps"]
    return bound["slack"]


def make_parity_moment(case):
    import fairlearn.reductions as red

    return getattr(red, case["moment"])(**bound_kwargs(case["bound"]))


def rotated(case, k):
    """The same rows rotated by k positions: a different dataset of the same size with the same (event, group) pairs."""
    c = dict(case)
    for key in ("x", "y", "sf", "cf"):
        if case.get(key) is not None:
            v = list(case[key])
            c[key] = v[k % len(v):] + v[: k % len(v)]
    return c


def load_reloaded(m, case, warm=None, only_sf=False):
    """m.load_data(case data); with case['preload'] = k > 0 the same object has first loaded another dataset of the
    same size (rows rotated by k) and been used (``warm(m)``): nothing derived from the earlier data may survive."""
    def data(c):
        X, y, kw = build_data(c)
        if only_sf:
            kw = {"sensitive_features": kw["sensitive_features"]}
        return X, y, kw

    k = case.get("preload", 0)
    if k:
        X0, y0, kw0 = data(rotated(case, k))
        m.load_data(X0, y0, **kw0)
        if warm is not None:
            warm(m)
    X, y, kw = data(case)
    m.load_data(X, y, **kw)
    return m


def load_parity(case):
    """Load the case's data into a new moment.  With case['preload'] = k > 0 the same moment object has first
    loaded (and used) another dataset of the same size: load_data must rebuild everything derived from the data."""
    m = make_parity_moment(case)
    k = case.get("preload", 0)
    if k:
        X0, y0, kw0 = build_data(rotated(case, k))
        m.load_data(X0, y0, **kw0)
        m.gamma(predictor(np.zeros(len(case["y"]))))
    X, y, kw = build_data(case)
    m.load_data(X, y, **kw)
    return m


def make_loss(spec):
    import fairlearn.reductions as red

    if spec["kind"] == "square":
        return red.SquareLoss(spec["lo"], spec["hi"])
    if spec["kind"] == "absolute":
        return red.AbsoluteLoss(spec["lo"], spec["hi"])
    return red.ZeroOneLoss()


def make_error_rate(costs):
    from fairlearn.reductions import ErrorRate

    if costs is None:
        return ErrorRate()
    d = dict(costs)
    m = ErrorRate(costs=d)
    # the caller goes on using (and changing) its dict, e.g. in a cost sweep: the moment keeps the costs it was given
    d["fp"], d["fn"] = d["fn"] + 7.0, d["fp"] + 3.0
    return m


def predictor(vec, dtype=None):
    """A callable predictor returning the generated prediction vector (1-d float ndarray; with ``dtype`` given and
    hard 0/1 predictions, an array of that dtype - classifiers return labels in the dtype they were trained on)."""
    arr = np.asarray(vec, dtype=float)
    if dtype and set(arr.tolist()) <= {0.0, 1.0}:
        arr = arr.astype(dtype)

    def _predict(X):
        if X.shape[0] != len(arr):
            raise PropertyViolation(f"predictor called with {X.shape[0]} rows, the data has {len(arr)}")
        return arr.copy()

    return _predict


def as_series(obj, what):
    need(isinstance(obj, pd.Series), f"{what} is {type(obj).__name__}, not a pandas Series")
    return obj


# ---- first-principles reference -------------------------------------------------------------------------


def ref_events(case):
    """Occurring events of the case's moment.

    Returns a list of {"stratum", "cls", "rows": [i...], "groups": {str(g): [i...]}}: one entry per
    control stratum x conditioned label class that has at least one row; groups only where a row of
    the group lies inside the event.
    """
    n = case["n"]
    cf = case.get("cf")
    strata = []
    for i in range(n):
        s = None if cf is None else cf[i]
        if s not in strata:
            strata.append(s)
    out = []
    for s in strata:
        for cls in EVENT_CLASSES[case["moment"]]:
            rows = [
                i
                for i in range(n)
                if (cf is None or cf[i] == s) and (cls is None or case["y"][i] == cls)
            ]
            if not rows:
                continue
            groups = {}
            for i in rows:
                groups.setdefault(str(case["sf"][i]), []).append(i)
            out.append({"stratum": s, "cls": cls, "rows": rows, "groups": groups})
    return out


def count_pairs(case):
    return sum(len(e["groups"]) for e in ref_events(case))


def utility(case, h):
    """u_i: the prediction, or for ErrorRateParity the (soft) error indicator h(1-y)+(1-h)y."""
    h = np.asarray(h, dtype=float)
    if case["moment"] == "ErrorRateParity":
        y = np.asarray(case["y"], dtype=float)
        return h * (1 - y) + (1 - h) * y
    return h


def ref_gamma(case, h, events=None):
    """{(event position, str(group), sign): value} from first principles."""
    r = ratio_of(case["bound"])
    u = utility(case, h)
    events = ref_events(case) if events is None else events
    out = {}
    for k, ev in enumerate(events):
        mean_e = float(np.mean(u[ev["rows"]]))
        for g, rows in ev["groups"].items():
            mean_eg = float(np.mean(u[rows]))
            out[(k, g, "+")] = r * mean_eg - mean_e
            out[(k, g, "-")] = r * mean_e - mean_eg
    return out


def probe_predictors(n):
    """h = 0 and the n unit predictors e_i (all hard predictions)."""
    return [np.zeros(n)] + [np.eye(n)[i] for i in range(n)]


def split_index(index, what="index"):
    """[(sign, event label, str(group))] of a moment's three-level index (labels are opaque)."""
    need(isinstance(index, pd.MultiIndex) and index.nlevels == 3,
         lambda: f"{what} is not a 3-level MultiIndex: {index!r}")
    ents = []
    for t in index.tolist():
        need(t[0] in ("+", "-"), lambda: f"{what} entry {t!r}: sign level is not '+' or '-'")
        ents.append((t[0], t[1], str(t[2])))
    need(len(set(ents)) == len(ents), lambda: f"{what} has duplicate entries: {index.tolist()}")
    return ents


def match_events(case, moment, events=None, tol=TOL):
    """Name-independent matching of the moment's index entries with the first-principles events.

    gamma is evaluated under h = 0 and the unit predictors; an index event label L matches the
    reference event E iff both have the same (sign, group) entries and every entry takes the
    reference values on all n+1 probes.  Returns (entries, {event label: event position}).
    Raises PropertyViolation if the labels and the reference events are not in bijection.
    """
    n = case["n"]
    events = ref_events(case) if events is None else events
    probes = probe_predictors(n)
    got_cols = []
    entries = None
    idx0 = None
    for p in probes:
        g = as_series(moment.gamma(predictor(p)), "gamma(h)")
        if entries is None:
            idx0 = g.index
            entries = split_index(idx0, "gamma(h).index")
        else:
            need(g.index.equals(idx0), "gamma(h).index changes with the predictor")
        vals = np.asarray(g.to_numpy(), dtype=float)
        need(bool(np.all(np.isfinite(vals))), lambda: f"gamma(h) has non-finite entries: {g.to_dict()}")
        got_cols.append(vals)
    got = np.column_stack(got_cols) if entries else np.zeros((0, n + 1))
    ref_cols = [ref_gamma(case, p, events) for p in probes]

    n_pairs = sum(len(e["groups"]) for e in events)
    need(
        len(entries) == 2 * n_pairs,
        f"index has {len(entries)} entries; the data has {n_pairs} occurring (event, group) pairs, "
        f"so exactly {2 * n_pairs} are expected. index={entries}",
    )
    by_label = {}
    for pos, (sign, label, g) in enumerate(entries):
        by_label.setdefault(label, {})[(sign, g)] = got[pos]
    ref_by_event = {}
    for k, ev in enumerate(events):
        d = {}
        for g in ev["groups"]:
            for sign in "+-":
                d[(sign, g)] = np.array([c[(k, g, sign)] for c in ref_cols])
        ref_by_event[k] = d

    assigned = {}
    free = set(ref_by_event)
    for label, d in by_label.items():
        hit = None
        for k in sorted(free):
            rd = ref_by_event[k]
            if set(rd) == set(d) and all(np.max(np.abs(rd[key] - d[key])) <= tol for key in rd):
                hit = k
                break
        if hit is None:
            detail = {f"{s}{g}": [round(float(v), 12) for v in vec] for (s, g), vec in d.items()}
            remaining = [
                {"stratum": events[k]["stratum"], "label_class": events[k]["cls"], "rows": events[k]["rows"],
                 "groups": sorted(events[k]["groups"])}
                for k in sorted(free)
            ]
            raise PropertyViolation(
                f"index event {label!r} (entries {sorted(d)}) matches no event of the data: its gamma "
                f"values under h=0,e_1..e_n are {detail}; first-principles events still unmatched: "
                f"{remaining} (ratio={ratio_of(case['bound'])})"
            )
        assigned[label] = hit
        free.discard(hit)
    need(not free, f"events of the data without index entries: {[events[k]['rows'] for k in sorted(free)]}")
    return entries, assigned


def ref_loss(spec, y, h):
    y = np.asarray(y, dtype=float)
    h = np.asarray(h, dtype=float)
    lo, hi = (0.0, 1.0) if spec["kind"] == "zero_one" else (spec["lo"], spec["hi"])
    d = np.minimum(np.maximum(y, lo), hi) - np.minimum(np.maximum(h, lo), hi)
    return d * d if spec["kind"] == "square" else np.abs(d)


def ref_error(case_y, h, costs):
    """(fn * sum_{y=1} (1-h) + fp * sum_{y=0} h) / n for h in [0,1]."""
    y = np.asarray(case_y)
    h = np.asarray(h, dtype=float)
    fp, fn = (1.0, 1.0) if costs is None else (costs["fp"], costs["fn"])
    return float((fn * np.sum((1 - h)[y == 1]) + fp * np.sum(h[y == 0])) / len(y))


def group_rows(sf):
    out = {}
    for i, g in enumerate(sf):
        out.setdefault(str(g), []).append(i)
    return out
