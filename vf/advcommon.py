"""Shared pieces of the adversarial-mitigation checks (C16, C17): label encodings, case -> objects,
model / optimiser construction and the first-principles reference of one training step.

Nothing in here calls fairlearn's engine: encodings, losses and the update rule are re-derived from the
documentation (binary -> one {0,1} column marking the larger label, sigmoid output, log loss;
multiclass -> one-hot in sorted label order, softmax log loss on raw scores; continuous -> as is,
mean squared error; equalized odds -> adversary input = predictor output ++ encoded y).
torch is imported lazily (2-4 s per process).
"""

from __future__ import annotations

import copy

import numpy as np
import pandas as pd
from hypothesis import strategies as st

# class index -> label value; the *sorted* order decides encoding (binary: larger label = 1).
LABELS = {
    "b01": [0, 1],
    "b10": [1, 0],
    "bm11": [-1, 1],
    "bints": [7, 3],
    "bstr": ["no", "yes"],
    "bstr2": ["b", "a"],
    "m012": [0, 1, 2],
    "mints": [5, 2, 9],
    "mstr": ["b", "c", "a"],
    "m4": [2, 0, 3, 1],
    "m4str": ["w", "x", "zz", "y"],
}
BINARY = ["b01", "b10", "bm11", "bints", "bstr", "bstr2"]
MULTI = ["m012", "mints", "mstr", "m4", "m4str"]
ACTS = [None, "leaky_relu", "sigmoid", "relu", "tanh_instance"]


def n_classes(col):
    return len(LABELS[col["enc"]]) if col["type"] in ("binary", "multi") else 0


def raw_values(col, rows=None):
    """The values as the user would hold them (list), for the rows given (default all)."""
    v = col["v"]
    idx = range(len(v)) if rows is None else rows
    if col["type"] in ("binary", "multi"):
        lab = LABELS[col["enc"]]
        return [lab[v[i]] for i in idx]
    return [v[i] for i in idx]


def wrap(values, kind):
    if kind == "list":
        return list(values)
    if kind == "series":
        if len(values) and isinstance(values[0], (list, tuple)):
            return pd.DataFrame(values)
        return pd.Series(values)
    return np.asarray(values)


def label_set(col):
    return set(LABELS[col["enc"]])


def encode(col, rows=None):
    """First-principles float encoding, shape (n, k)."""
    vals = raw_values(col, rows)
    t = col["type"]
    if t == "binary":
        pos = sorted(LABELS[col["enc"]])[-1]
        return np.array([[1.0 if x == pos else 0.0] for x in vals], dtype=float).reshape(len(vals), 1)
    if t == "multi":
        order = sorted(LABELS[col["enc"]])
        out = np.zeros((len(vals), len(order)))
        for i, x in enumerate(vals):
            out[i, order.index(x)] = 1.0
        return out
    arr = np.asarray(vals, dtype=float)
    return arr.reshape(len(vals), -1)


def width(col):
    t = col["type"]
    if t == "binary":
        return 1
    if t == "multi":
        return len(LABELS[col["enc"]])
    if t == "cont2":
        return 2
    return 1


# ---- models ------------------------------------------------------------------------------------------


def expected_linear_shapes(spec, n_in, n_out):
    dims = [n_in] + list(spec["hidden"]) + [n_out]
    shapes = []
    for a, b in zip(dims[:-1], dims[1:]):
        shapes.append((b, a))
        if spec.get("bias", True) or spec["kind"] == "list":
            shapes.append((b,))
    return shapes


def _mode_scale():
    import torch

    class ModeScale(torch.nn.Module):
        """A parameter-free layer that behaves differently in training and in inference mode (like dropout or batch
        normalisation): identity while training, halves its input in eval mode."""

        def forward(self, x):
            return x if self.training else 0.5 * x

    return ModeScale()


def _act_module(name):
    import torch

    if name == "mode_scale":
        return _mode_scale()

    return {
        "leaky_relu": torch.nn.LeakyReLU,
        "sigmoid": torch.nn.Sigmoid,
        "relu": torch.nn.ReLU,
        "tanh_instance": torch.nn.Tanh,
    }[name]()


def build_model(spec, n_in, n_out, final_sigmoid):
    """The object passed as predictor_model / adversary_model: a list of keywords or an nn.Module."""
    import torch

    if spec["kind"] == "list":
        items = []
        for w, a in zip(spec["hidden"], spec["acts"]):
            items.append(int(w))
            if a == "tanh_instance":
                items.append(torch.nn.Tanh())  # "a layer or activation function instance directly"
            elif a is not None:
                items.append(a)
        return items
    gen = torch.Generator().manual_seed(int(spec["seed"]))
    layers = []
    dims = [n_in] + list(spec["hidden"]) + [n_out]
    acts = list(spec["acts"]) + [None]
    for a, b, act in zip(dims[:-1], dims[1:], acts):
        lin = torch.nn.Linear(a, b, bias=bool(spec.get("bias", True)))
        with torch.no_grad():
            lin.weight.copy_((torch.rand(b, a, generator=gen) * 2 - 1) * float(spec.get("scale", 1.0)))
            if lin.bias is not None:
                lin.bias.copy_(torch.rand(b, generator=gen) - 0.5)
            if spec.get("dead_first") and not layers:
                # first layer: zero weights, negative biases -> a following ReLU is dead on every row and
                # no gradient flows back to the predictor (dLA/dW == 0 exactly)
                lin.weight.zero_()
                lin.bias.copy_(-lin.bias.abs() - 0.05)
        layers.append(lin)
        if act is not None:
            layers.append(_act_module(act))
    if final_sigmoid:
        layers.append(torch.nn.Sigmoid())
    return torch.nn.Sequential(*layers)


def optimizer_arg(kind, lr, model_obj):
    """predictor_optimizer / adversary_optimizer argument: keyword, constructor or instance (plain SGD)."""
    import torch

    if kind == "str":
        return "SGD"
    if kind == "callable":
        return lambda m: torch.optim.SGD(m.parameters(), lr=lr)
    if kind == "instance":
        return torch.optim.SGD(model_obj.parameters(), lr=lr)
    raise ValueError(kind)


def make_estimator(case, **extra):
    """Build the estimator described by ``case`` (keys: y, a, n_features, pred, adv, pred_opt, adv_opt,
    lr, lr_p, lr_a, alpha, constraints, random_state).  Returns (estimator, effective lr_p, lr_a)."""
    from fairlearn.adversarial import AdversarialFairnessClassifier, AdversarialFairnessRegressor

    ycol, acol = case["y"], case["a"]
    ky, ka = width(ycol), width(acol)
    pass_y = case["constraints"] == "equalized_odds"
    pm = build_model(case["pred"], case["n_features"], ky, ycol["type"] == "binary")
    am = build_model(case["adv"], ky * (2 if pass_y else 1), ka, acol["type"] == "binary")
    lr = float(case["lr"])
    lr_p = lr if case["pred_opt"] == "str" else float(case["lr_p"])
    lr_a = lr if case["adv_opt"] == "str" else float(case["lr_a"])
    cls = AdversarialFairnessRegressor if ycol["type"] == "cont" else AdversarialFairnessClassifier
    est = cls(
        backend="torch",
        predictor_model=pm,
        adversary_model=am,
        predictor_optimizer=optimizer_arg(case["pred_opt"], lr_p, pm),
        adversary_optimizer=optimizer_arg(case["adv_opt"], lr_a, am),
        constraints=case["constraints"],
        learning_rate=lr,
        alpha=case["alpha"],
        random_state=case["random_state"],
        **extra,
    )
    return est, lr_p, lr_a


# ---- first-principles reference of one step --------------------------------------------------------------


def _loss(out, target, kind):
    import torch

    if kind == "binary":  # out already is the probability of the positive class
        return -(target * torch.log(out) + (1 - target) * torch.log(1 - out)).mean()
    if kind == "multi":  # out = raw scores; softmax log loss against the one-hot rows
        logp = out - torch.logsumexp(out, dim=1, keepdim=True)
        return -(target * logp).sum(dim=1).mean()
    return ((out - target) ** 2).mean()


def reference_gradients(P0, A0, X, Yenc, Aenc, ytype, atype, pass_y, single=False):
    """dLP/dW, dLA/dW (through the predictor) and dLA/dU by autograd in float64 on deep copies.

    Inputs are first rounded to float32 (the documented tensor type) and then promoted.  With
    ``single=True`` the same first-principles computation is carried out in float32; the difference to the
    float64 result measures how well float32 can resolve these gradients at all (used for tolerances only).
    """
    import torch

    dt = torch.float32 if single else torch.float64
    P = copy.deepcopy(P0).to(dt)
    A = copy.deepcopy(A0).to(dt)
    P.train()
    A.train()
    Xt = torch.from_numpy(np.asarray(X, dtype=np.float32)).to(dt)
    Yt = torch.from_numpy(np.asarray(Yenc, dtype=np.float32)).to(dt)
    At = torch.from_numpy(np.asarray(Aenc, dtype=np.float32)).to(dt)
    out = P(Xt)
    LP = _loss(out, Yt, ytype)
    Wp = list(P.parameters())
    Up = list(A.parameters())
    gP = torch.autograd.grad(LP, Wp, retain_graph=True, allow_unused=True)
    inp = torch.cat((out, Yt), dim=1) if pass_y else out
    aout = A(inp)
    LA = _loss(aout, At, "cont" if atype in ("cont", "cont2") else atype)
    # float32 cannot represent 1 - p for p > 1 - 6e-8: the engine's sigmoid + log loss then has a zero
    # gradient where the documented loss has not; callers skip such saturated cases
    margin = 1.0
    if ytype == "binary":
        margin = min(margin, float((1 - out).min()))
    if atype == "binary":
        margin = min(margin, float((1 - aout).min()))
    gAW = torch.autograd.grad(LA, Wp, retain_graph=True, allow_unused=True)
    gAU = torch.autograd.grad(LA, Up, allow_unused=True)

    def fill(gs, ps):
        return [(torch.zeros_like(p) if g is None else g.detach()).double() for g, p in zip(gs, ps)]

    return fill(gP, Wp), fill(gAW, Wp), fill(gAU, Up), float(LP), float(LA), margin


def params_of(model):
    return [p.detach().clone().double() for p in model.parameters()]


# ---- strategies ------------------------------------------------------------------------------------------


@st.composite
def model_spec(draw, allow_module=True, max_hidden=2, max_width=6, acts=("leaky_relu", "sigmoid", None)):
    nh = draw(st.sampled_from([0, 1, 1, 2][: max_hidden + 2]))
    hidden = [draw(st.integers(1, max_width)) for _ in range(nh)]
    a = [draw(st.sampled_from(list(acts))) for _ in range(nh)]
    kind = draw(st.sampled_from(["list", "list", "module"])) if allow_module else "list"
    spec = {"kind": kind, "hidden": hidden, "acts": a}
    if kind == "module":
        spec["seed"] = draw(st.integers(0, 10**6))
        spec["bias"] = draw(st.sampled_from([True, True, False]))
    return spec


@st.composite
def column(draw, typ, sizes, first_full=True, decimals=True):
    """A label / sensitive column split in consecutive batches of the given sizes.

    binary/multi: every batch has the same sklearn target type as the whole column (>= 3 distinct
    classes per batch for multiclass) and the first batch contains every class; continuous: every
    batch holds a non-integer value."""
    if typ in ("binary", "multi"):
        enc = draw(st.sampled_from(BINARY if typ == "binary" else MULTI))
        k = len(LABELS[enc])
        v = []
        for bi, n in enumerate(sizes):
            need = list(range(k)) if (bi == 0 and first_full) else []
            if typ == "multi" and len(need) < 3:
                need = list(draw(st.permutations(range(k))))[:3]
            rest = [draw(st.integers(0, k - 1)) for _ in range(n - len(need))]
            batch = need + rest
            batch = list(draw(st.permutations(batch)))
            v.extend(batch)
        return {"type": typ, "enc": enc, "v": v}
    val = st.integers(-30, 30).map(lambda t: t / 10.0)
    if typ == "cont":
        v = []
        for n in sizes:
            batch = [draw(val) for _ in range(n)]
            if all(float(x).is_integer() for x in batch):
                batch[draw(st.integers(0, n - 1))] = draw(st.sampled_from([0.5, -1.5, 0.3, 2.7]))
            v.extend(batch)
        return {"type": "cont", "v": v}
    v = []
    for n in sizes:
        batch = [[draw(val), draw(val)] for _ in range(n)]
        if all(float(x).is_integer() for r in batch for x in r):
            batch[draw(st.integers(0, n - 1))][draw(st.integers(0, 1))] = 0.5
        v.extend(batch)
    return {"type": "cont2", "v": v}


def min_batch(typ, first, k_hint=4):
    if typ == "multi":
        return k_hint if first else 3
    if typ == "binary":
        return 2 if first else 1
    return 1
