"""Runner for the property checks of /verif (property-based testing / fuzzing family).

    ./vfcheck <ID> [--tier quick|thorough] [--replay FILE] [--sub NAME] [--examples-scale F]

A property module ``vf.props.cNN`` exposes

    PROPERTY   = "C14"
    LEVEL      = "exploration" | "fault_enumeration"
    RULE       = text: how cases are generated and what makes one non-trivial
    ASSUMPTIONS = [text, ...]
    SUBS       = [Sub(...), ...]
    REGIONS    = {finding_id: predicate(sub_name, case) -> bool}      (optional)
    PROBES     = {finding_id: [(sub_name, case), ...]}                  (optional)

Every sub-check is ``strategy -> plain-JSON case`` plus ``check(case) -> iterable of tags``; the tag
"nt" marks the case non-trivial by the module's RULE.  ``check`` raises PropertyViolation when the
property is broken on the case and Skip when the case is outside the property's domain.

Exit codes: 0 held / 1 VIOLATION printed / 2 harness error, vacuity guard or timeout (inconclusive).
"""

from __future__ import annotations

import argparse
import hashlib
import importlib
import json
import math
import multiprocessing as mp
import os
import sys
import time
import traceback

VERIF_DIR = os.path.dirname(os.path.dirname(os.path.abspath(__file__)))
REPO_ROOT = os.path.abspath(os.environ.get("VF_REPO_ROOT", "/repo"))

# The code under test is always /repo's working tree (or the scratch tree named by VF_REPO_ROOT
# when the sensitivity protocol runs a mutant).
sys.path.insert(0, REPO_ROOT)

import logging  # noqa: E402

logging.disable(logging.WARNING)  # fairlearn logs advisory warnings (grid sizes, missing sensitive features)


class PropertyViolation(AssertionError):
    """The property does not hold on this case."""


class Skip(Exception):
    """The case lies outside the property's stated domain (counted, never a verdict)."""


class Sub:
    """One sub-check of a property."""

    def __init__(
        self,
        name,
        check,
        strategy=None,
        enumerate=None,
        quick=200,
        thorough=2000,
        shards=8,
        shrink_quick=True,
        floors=None,
        exhaustive=False,
        max_skip_frac=0.5,
        custom=None,
    ):
        self.name = name
        self.check = check
        self.strategy = strategy  # zero-argument callable returning a Hypothesis strategy
        self.enumerate = enumerate  # callable(tier) -> iterable of cases (deterministic order)
        self.budget = {"quick": quick, "thorough": thorough}
        self.shards = shards
        self.shrink_quick = shrink_quick
        self.floors = floors or {}
        self.exhaustive = exhaustive
        self.max_skip_frac = max_skip_frac
        # custom(tier, seed, shard, n_shards, n_examples) -> dict(evals, nt=[digests], tags, samples, fail, harness)
        # for engines that drive themselves (the atheris campaign of C13)
        self.custom = custom


# --------------------------------------------------------------------------------------------


def canonical(case) -> str:
    return json.dumps(case, sort_keys=True, default=_json_default)


def _json_default(o):
    try:
        import numpy as np

        if isinstance(o, np.generic):
            return o.item()
        if isinstance(o, np.ndarray):
            return o.tolist()
    except Exception:
        pass
    if isinstance(o, (set, frozenset)):
        return sorted(o)
    return repr(o)


def digest(case) -> str:
    return hashlib.sha1(canonical(case).encode()).hexdigest()[:16]


def shard_seed(seed: int, prop: str, sub: str, shard: int) -> int:
    h = hashlib.sha256(f"{seed}:{prop}:{sub}:{shard}".encode()).hexdigest()
    return int(h[:12], 16)


def _from_fairlearn(exc: BaseException) -> bool:
    """True when some frame of the traceback lies inside the package under test."""
    root = os.path.join(REPO_ROOT, "fairlearn") + os.sep
    e = exc
    seen = set()
    while e is not None and id(e) not in seen:
        seen.add(id(e))
        tb = e.__traceback__
        while tb is not None:
            fn = os.path.abspath(tb.tb_frame.f_code.co_filename)
            if fn.startswith(root):
                return True
            tb = tb.tb_next
        e = e.__cause__ or e.__context__
    return False


class _Tally:
    def __init__(self):
        self.evals = 0
        self.nt = set()
        self.tags = {}
        self.samples = []
        self.skips = {}
        self.excluded = {}
        self.fail = None  # (case, message)
        self.harness = None  # text

    def as_dict(self):
        return {
            "evals": self.evals,
            "nt": sorted(self.nt),
            "tags": self.tags,
            "samples": self.samples,
            "skips": self.skips,
            "excluded": self.excluded,
            "fail": self.fail,
            "harness": self.harness,
        }


def _regions_for(mod, known):
    regs = getattr(mod, "REGIONS", {})
    return {fid: regs[fid] for fid in known if fid in regs}


def run_one(mod, sub, case, tally, regions, record=True):
    """Evaluate one case; returns None, or raises PropertyViolation / _HarnessError."""
    for fid, pred in regions.items():
        if pred(sub.name, case):
            tally.excluded[fid] = tally.excluded.get(fid, 0) + 1
            return
    try:
        tags = sub.check(case)
    except Skip as s:
        key = str(s) or "skip"
        tally.skips[key] = tally.skips.get(key, 0) + 1
        if record:
            tally.evals += 1
        return
    except PropertyViolation:
        raise
    except Exception as e:  # noqa: BLE001
        if _from_fairlearn(e):
            tb = traceback.format_exc(limit=-6)
            raise PropertyViolation(
                f"unexpected {type(e).__name__} from fairlearn on an input the property covers: {e}\n{tb}"
            ) from e
        raise _HarnessError(traceback.format_exc()) from e
    if record:
        tally.evals += 1
        tags = list(tags or [])
        for t in tags:
            tally.tags[t] = tally.tags.get(t, 0) + 1
        if "nt" in tags:
            d = digest(case)
            if d not in tally.nt:
                tally.nt.add(d)
                if len(tally.samples) < 2:
                    tally.samples.append(case)


class _HarnessError(Exception):
    pass


def _worker(args):
    prop, sub_name, shard, n_shards, n_examples, seed, tier, known = args
    t0 = time.time()
    tally = _Tally()
    try:
        mod = importlib.import_module(f"vf.props.{prop.lower()}")
        sub = next(s for s in mod.SUBS if s.name == sub_name)
        regions = _regions_for(mod, known)
        try:
            import torch  # noqa: F401

            torch.set_num_threads(1)
        except Exception:
            pass
        if sub.custom is not None:
            res = sub.custom(tier, seed, shard, n_shards, n_examples)
            tally.evals = res.get("evals", 0)
            tally.nt = set(res.get("nt", []))
            tally.tags = dict(res.get("tags", {}))
            tally.samples = list(res.get("samples", []))[:2]
            tally.fail = res.get("fail")
            tally.harness = res.get("harness")
        elif sub.enumerate is not None:
            for i, case in enumerate(sub.enumerate(tier)):
                if i % n_shards != shard:
                    continue
                try:
                    run_one(mod, sub, case, tally, regions)
                except PropertyViolation as v:
                    tally.fail = (case, str(v))
                    break
        else:
            _hypothesis_shard(mod, sub, tally, regions, n_examples, seed, tier, shard)
    except _HarnessError as h:
        tally.harness = str(h)
    except Exception:  # noqa: BLE001
        tally.harness = traceback.format_exc()
    out = tally.as_dict()
    out["wall"] = time.time() - t0
    out["sub"] = sub_name
    out["shard"] = shard
    return out


def _hypothesis_shard(mod, sub, tally, regions, n_examples, seed, tier, shard=0):
    import hypothesis
    from hypothesis import HealthCheck, Phase, given, settings

    phases = [Phase.generate]
    if tier == "thorough" or sub.shrink_quick:
        phases.append(Phase.shrink)
    # Hypothesis starts every run with the simplest example of the strategy: all shards but the first skip it
    # (it would be the same case 16 times) and draw one more instead
    state = {"failing": False, "skip_first": shard > 0}

    @hypothesis.seed(seed)
    @settings(
        max_examples=n_examples + (1 if shard > 0 else 0),
        database=None,
        deadline=None,
        derandomize=False,
        report_multiple_bugs=False,
        phases=phases,
        suppress_health_check=list(HealthCheck),
        print_blob=False,
    )
    @given(sub.strategy())
    def body(case):
        if state["skip_first"]:
            state["skip_first"] = False
            return
        try:
            run_one(mod, sub, case, tally, regions, record=not state["failing"])
        except PropertyViolation as v:
            state["failing"] = True
            tally.fail = (case, str(v))  # the last failing call is Hypothesis' minimal example
            raise

    try:
        body()
    except PropertyViolation:
        pass
    except _HarnessError:
        raise
    except BaseException as e:  # hypothesis errors (Flaky, Unsatisfiable, ...)
        if isinstance(e, (KeyboardInterrupt, SystemExit)):
            raise
        if tally.fail is None:
            raise _HarnessError(traceback.format_exc()) from e


# --------------------------------------------------------------------------------------------


def load_known(prop):
    path = os.path.join(VERIF_DIR, "known_findings.json")
    if not os.path.exists(path):
        return []
    data = json.load(open(path))
    return [f for f in data.get("findings", []) if f.get("property") == prop]


def write_replay(prop, sub_name, case, message):
    d = os.path.join(VERIF_DIR, "replays", prop)
    os.makedirs(d, exist_ok=True)
    path = os.path.join(d, f"{sub_name}-{digest(case)}.json")
    with open(path, "w") as f:
        json.dump(
            {"property": prop, "sub": sub_name, "case": case, "message": message},
            f,
            indent=1,
            sort_keys=True,
            default=_json_default,
        )
    return os.path.relpath(path, VERIF_DIR)


def replay_file(mod, path, known_ids=()):
    data = json.load(open(path))
    sub = next(s for s in mod.SUBS if s.name == data["sub"])
    tally = _Tally()
    run_one(mod, sub, data["case"], tally, {})
    return tally


def _truncate(obj, limit=1500):
    s = canonical(obj)
    if len(s) <= limit:
        return obj
    return {"truncated_json": s[:limit] + "..."}


def main(argv=None):
    ap = argparse.ArgumentParser()
    ap.add_argument("prop")
    ap.add_argument("--tier", default=os.environ.get("VERIF_TIER", "quick"))
    ap.add_argument("--replay")
    ap.add_argument("--sub", action="append")
    ap.add_argument("--scale", type=float, default=float(os.environ.get("VF_SCALE", "1")))
    ap.add_argument("--jobs", type=int, default=int(os.environ.get("VF_JOBS", "16")))
    ap.add_argument("--no-evidence", action="store_true")
    args = ap.parse_args(argv)
    prop = args.prop.upper()
    tier = args.tier if args.tier in ("quick", "thorough") else "quick"
    try:
        seed = int(os.environ.get("VERIF_SEED", "1"))
    except ValueError:
        seed = 1
    t0 = time.time()

    try:
        import fairlearn

        fl_file = os.path.abspath(fairlearn.__file__)
        if not fl_file.startswith(REPO_ROOT + os.sep):
            print(f"HARNESS-ERROR fairlearn imported from {fl_file}, expected under {REPO_ROOT}")
            return 2
        mod = importlib.import_module(f"vf.props.{prop.lower()}")
    except Exception:  # noqa: BLE001
        traceback.print_exc()
        print(f"HARNESS-ERROR cannot import fairlearn or the module for {prop}")
        return 2
    print(f"[vf] property={prop} tier={tier} seed={seed} fairlearn={fl_file}")

    # ---- replay mode -------------------------------------------------------------------------
    if args.replay:
        try:
            replay_file(mod, args.replay)
        except PropertyViolation as v:
            print(f"VIOLATION property={prop} replay={args.replay}")
            print(str(v)[:2000])
            return 1
        except _HarnessError as h:
            print("HARNESS-ERROR during replay\n" + str(h))
            return 2
        print(f"[vf] replay {args.replay}: property holds on this case")
        return 0

    known = load_known(prop)
    known_open = [f for f in known if f.get("status") == "known"]
    known_ids = [f["id"] for f in known_open]
    violations = []  # (sub, replay path, message)
    known_lines = []
    harness_errors = []

    # ---- 1. regression replays (minimal cases of repaired defects and earlier finds) ------------
    reg_dir = os.path.join(VERIF_DIR, "regressions", prop)
    n_reg = 0
    if os.path.isdir(reg_dir):
        for fn in sorted(os.listdir(reg_dir)):
            if not fn.endswith(".json"):
                continue
            path = os.path.join(reg_dir, fn)
            n_reg += 1
            try:
                replay_file(mod, path)
            except PropertyViolation as v:
                violations.append(("regression:" + fn, os.path.relpath(path, VERIF_DIR), str(v)))
            except (_HarnessError, Exception):  # noqa: BLE001
                harness_errors.append(f"regression {fn}:\n{traceback.format_exc()}")

    # ---- 2. probes of the listed known findings -------------------------------------------------
    probes = getattr(mod, "PROBES", {})
    probe_report = []
    for f in known_open:
        fid = f["id"]
        hits = 0
        total = 0
        for sub_name, case in probes.get(fid, []):
            sub = next(s for s in mod.SUBS if s.name == sub_name)
            total += 1
            try:
                run_one(mod, sub, case, _Tally(), {})
            except PropertyViolation:
                hits += 1
            except _HarnessError as h:
                harness_errors.append(f"probe {fid}:\n{h}")
        probe_report.append({"id": fid, "probe_cases": total, "still_failing": hits})
        if hits:
            line = f"KNOWN-FINDING: property={prop} {fid} {f.get('what', '')}"
            known_lines.append(line)

    # ---- 3. the generated search ------------------------------------------------------------------
    subs = [s for s in mod.SUBS if not args.sub or s.name in args.sub]
    tasks = []
    for s in subs:
        n_total = max(1, int(math.ceil(s.budget[tier] * args.scale)))
        n_shards = max(1, min(s.shards, n_total))
        per = int(math.ceil(n_total / n_shards))
        for k in range(n_shards):
            tasks.append(
                (prop, s.name, k, n_shards, per, shard_seed(seed, prop, s.name, k), tier, known_ids)
            )
    results = []
    timeout = float(os.environ.get("VF_TIMEOUT", "3000" if tier == "quick" else "28000"))
    timed_out = False
    if tasks:
        ctx = mp.get_context("fork")
        jobs = max(1, min(args.jobs, len(tasks)))
        with ctx.Pool(jobs, maxtasksperchild=1) as pool:
            it = pool.imap_unordered(_worker, tasks)
            for _ in tasks:
                left = timeout - (time.time() - t0)
                try:
                    results.append(it.next(timeout=max(1.0, left)))
                except mp.TimeoutError:
                    timed_out = True
                    break
            pool.terminate()

    per_sub = {}
    for s in subs:
        rs = [r for r in results if r["sub"] == s.name]
        agg = {
            "evaluations": sum(r["evals"] for r in rs),
            "nt": set(),
            "tags": {},
            "skips": {},
            "excluded": {},
            "samples": [],
            "wall_cpu_s": round(sum(r["wall"] for r in rs), 2),
            "exhaustive": bool(s.exhaustive),
        }
        for r in rs:
            agg["nt"].update(r["nt"])
            for k, v in r["tags"].items():
                agg["tags"][k] = agg["tags"].get(k, 0) + v
            for k, v in r["skips"].items():
                agg["skips"][k] = agg["skips"].get(k, 0) + v
            for k, v in r["excluded"].items():
                agg["excluded"][k] = agg["excluded"].get(k, 0) + v
            if len(agg["samples"]) < 2:
                agg["samples"].extend(r["samples"][: 2 - len(agg["samples"])])
            if r["harness"]:
                harness_errors.append(f"{s.name} shard {r['shard']}:\n{r['harness']}")
        fails = [r for r in rs if r["fail"]]
        if fails:
            # smallest failing case across shards
            fails.sort(key=lambda r: len(canonical(r["fail"][0])))
            case, msg = fails[0]["fail"]
            path = write_replay(prop, s.name, case, msg)
            violations.append((s.name, path, msg))
        per_sub[s.name] = agg

    # ---- 4. vacuity guards -----------------------------------------------------------------------
    vacuous = []
    if not violations and not harness_errors and not timed_out:
        for s in subs:
            agg = per_sub[s.name]
            ev = agg["evaluations"]
            if ev == 0:
                vacuous.append(f"{s.name}: no case evaluated")
                continue
            nskip = sum(agg["skips"].values())
            if nskip / ev > s.max_skip_frac:
                vacuous.append(f"{s.name}: {nskip}/{ev} cases skipped (> {s.max_skip_frac:.0%})")
            for tag, floor in s.floors.items():
                frac = agg["tags"].get(tag, 0) / ev
                if frac < floor:
                    vacuous.append(f"{s.name}: tag '{tag}' on {frac:.1%} of cases, floor {floor:.0%}")

    # ---- 5. evidence -------------------------------------------------------------------------------
    total_evals = sum(a["evaluations"] for a in per_sub.values())
    total_nt = sum(len(a["nt"]) for a in per_sub.values())
    samples = []
    for name, a in per_sub.items():
        for c in a["samples"][:2]:
            samples.append({"sub": name, "case": _truncate(c)})
    cov_subs = {}
    for name, a in per_sub.items():
        cov_subs[name] = {
            "evaluations": a["evaluations"],
            "distinct_nontrivial": len(a["nt"]),
            "classes": dict(sorted(a["tags"].items())),
            "skipped_outside_domain": a["skips"],
            "excluded_known_region": a["excluded"],
            "cpu_s": a["wall_cpu_s"],
            "exhaustive": a["exhaustive"],
        }
    evidence = {
        "property_id": prop,
        "tier": tier,
        "seed": seed,
        "level": getattr(mod, "LEVEL", "exploration"),
        "coverage": {
            "evaluations": total_evals,
            "distinct_nontrivial": total_nt,
            "rule": getattr(mod, "RULE", ""),
            "samples": samples,
            "exhaustive": bool(subs) and all(s.exhaustive for s in subs),
            "subchecks": cov_subs,
            "regressions_replayed": n_reg,
            "known_finding_probes": probe_report,
            "code_under_test": fl_file,
        },
        "assumptions": list(getattr(mod, "ASSUMPTIONS", [])),
        "wall_s": round(time.time() - t0, 2),
        "violations": len(violations),
    }
    if not args.no_evidence and not args.sub:
        os.makedirs(os.path.join(VERIF_DIR, "evidence"), exist_ok=True)
        with open(os.path.join(VERIF_DIR, "evidence", f"{prop}.json"), "w") as f:
            json.dump(evidence, f, indent=1, default=_json_default)

    # ---- 6. report ---------------------------------------------------------------------------------
    for name, a in cov_subs.items():
        print(
            f"[vf] {name}: evals={a['evaluations']} distinct_nontrivial={a['distinct_nontrivial']} "
            f"skipped={sum(a['skipped_outside_domain'].values())} excluded={a['excluded_known_region']} "
            f"cpu={a['cpu_s']}s classes={a['classes']}"
        )
    for line in known_lines:
        print(line)
    if violations:
        for sub_name, path, msg in violations:
            print(f"VIOLATION property={prop} replay={path}")
            print(f"  sub-check {sub_name}: {msg[:1500]}")
        return 1
    if harness_errors:
        print("HARNESS-ERROR (inconclusive, not a verdict on the code):")
        for h in harness_errors[:3]:
            print(h[:3000])
        return 2
    if timed_out:
        print("INCONCLUSIVE: global safety timeout hit")
        return 2
    if vacuous:
        print("VACUOUS (inconclusive): " + "; ".join(vacuous))
        return 2
    print(f"[vf] {prop} held on everything explored ({total_evals} cases, {total_nt} distinct non-trivial, {evidence['wall_s']}s)")
    return 0


if __name__ == "__main__":
    sys.exit(main())
