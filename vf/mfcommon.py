"""Shared pieces for the MetricFrame properties (C01, C02, C11, C12, C18): dataset strategy,
metric-program library, construction of the MetricFrame from a JSON case, first-principles cells."""

from __future__ import annotations

import itertools
import math

import numpy as np
import pandas as pd
from hypothesis import strategies as st

from vf import gen
from vf.runner import PropertyViolation

# ---- metric programs -----------------------------------------------------------------------------

PARAM_COEF = {"sample_weight": 10.0, "p": 100.0, "b_c": 1000.0, "c": 1e4, "q": 1e5}


def _num(a):
    return np.asarray(a, dtype=float)


def m_lin(y_true, y_pred, **kw):
    """Row-additive metric: every row and every per-sample parameter contributes injectively."""
    yt, yp = _num(y_true), _num(y_pred)
    v = float(np.sum(yt) + 3.0 * np.sum(yp))
    for k in sorted(kw):
        a = _num(kw[k])
        if a.shape != yp.shape:
            raise ValueError(f"parameter {k} has shape {a.shape}, y_pred {yp.shape}")
        v += PARAM_COEF[k] * float(np.sum(a * (1.0 + yp)))
    return v


def m_max(y_true, y_pred, **kw):
    """Not additive: max of predictions plus max of every parameter."""
    v = float(np.max(_num(y_pred))) + 0.5 * float(np.min(_num(y_true)))
    for k in sorted(kw):
        v += PARAM_COEF[k] * float(np.max(_num(kw[k])))
    return v


def m_wmean(y_true, y_pred, sample_weight=None):
    """Sample-weighted mean of a per-row quantity (1[y_true == y_pred])."""
    yt, yp = np.asarray(y_true), np.asarray(y_pred)
    w = np.ones(len(yp)) if sample_weight is None else _num(sample_weight)
    return float(np.sum(w * (yt == yp)) / np.sum(w))


def m_npint(y_true, y_pred, **kw):
    return np.int64(len(y_true) + sum(int(np.sum(_num(v) > 1)) for v in kw.values()))


def m_npfloat(y_true, y_pred, **kw):
    return np.float64(m_lin(y_true, y_pred, **kw)) / np.float64(len(y_true))


def m_tiny(y_true, y_pred, **kw):
    """The additive metric on the scale of 1e-14 (values and differences around 1e-13, e.g. a squared error of a
    near-perfect regressor): nothing may be rounded to zero on an absolute scale."""
    return 1e-14 * m_lin(y_true, y_pred, **kw)


def m_nanhit(y_true, y_pred):
    """Undefined (NaN, like a precision without predicted positives) on row sets where no prediction is right."""
    hits = int(np.sum(np.asarray(y_true) == np.asarray(y_pred)))
    if hits == 0:
        return float("nan")
    return len(y_true) / hits


def m_bigint(y_true, y_pred):
    """Integer-valued metric beyond 2**53 (an id-like or nanosecond-like count): group gaps are lost in float64."""
    return np.int64(2**60) + np.int64(int(np.sum(np.asarray(y_pred, dtype=float) != 0)) * 3 + len(y_true))


def m_const(y_true, y_pred, **kw):
    """Constant over the rows: every resample and every group gives the same value."""
    return 3.5


def _fl(name):
    import fairlearn.metrics as fm

    return getattr(fm, name)


def metric_callable(key):
    if key in ("lin", "max", "wmean", "npint", "npfloat", "const", "tiny", "nanhit", "bigint"):
        return {"bigint": m_bigint, "nanhit": m_nanhit, "lin": m_lin, "max": m_max, "wmean": m_wmean, "npint": m_npint, "npfloat": m_npfloat,
                "const": m_const, "tiny": m_tiny}[key]
    if key in ("count", "selection_rate", "mean_prediction", "true_positive_rate", "false_positive_rate",
               "true_negative_rate", "false_negative_rate"):
        return _fl(key)
    if key == "accuracy_score":
        import sklearn.metrics as skm

        return skm.accuracy_score
    raise KeyError(key)


# metric key -> names of per-sample parameters it accepts
METRIC_PARAMS = {
    "lin": ["sample_weight", "p", "b_c", "c"],
    "max": ["p", "q"],
    "npint": ["p"],
    "npfloat": ["sample_weight", "p"],
    "wmean": ["sample_weight"],
    "const": ["p"],
    "tiny": ["sample_weight", "p"],
    "nanhit": [],
    "bigint": [],
    "count": [],
    "selection_rate": ["sample_weight"],
    "mean_prediction": ["sample_weight"],
    "accuracy_score": ["sample_weight"],
}

# ---- dataset strategy ----------------------------------------------------------------------------

SF_NAMES = ["sf", "g", "a_p", "SF 1", "x"]
CF_NAMES = ["cf", "ctl", "c_0", "k"]
METRIC_NAMES = ["a", "b", "a_b", "m", "", 0, "g", "k"]  # falsy names ("" and 0), and names a feature may carry too (g, k)


# y_true / y_pred containers: the vector kinds plus a (1, n) row vector and a nested one-row list (squeezed like columns)
_Y_KINDS = st.sampled_from(gen.VECTOR_KINDS + ["ndarray_row", "nested_list"])


@st.composite
def mf_case(draw, metric_keys=("lin", "max", "npint", "npfloat", "count", "selection_rate", "wmean", "tiny"),
            max_sf=3, max_cf=2, max_rows=24, y_mode=None, allow_collisions=True, force_params=False,
            weights=gen.real_weights):
    n_sf = draw(st.sampled_from([k for k in (1, 1, 2, 2, 3) if k <= max_sf]))
    n_cf = draw(st.sampled_from([k for k in (0, 0, 0, 1, 1, 2) if k <= max_cf]))
    max_levels = 3 if n_sf + n_cf <= 2 else 2
    table = draw(gen.feature_table(n_sf + n_cf, max_levels=max_levels, max_rows=max_rows))
    cols = table["cols"]
    n = len(cols[0])
    sf_cols, cf_cols = cols[:n_sf], cols[n_sf:]
    sf_names = draw(st.permutations(SF_NAMES))[:n_sf]
    cf_names = draw(st.permutations(CF_NAMES))[:n_cf]
    ym = y_mode or draw(st.sampled_from(["binary", "binary", "zeros", "ints", "reals"]))
    if ym == "binary":
        yv = st.integers(0, 1)
    elif ym == "zeros":
        yv = st.sampled_from([0, 0, 0, 1])
    elif ym == "ints":
        yv = st.integers(-2, 3)
    else:
        yv = st.one_of(st.integers(-2, 2).map(float), st.sampled_from([0.5, -1.25, 2.75]))
    y_true = draw(st.lists(yv, min_size=n, max_size=n))
    y_pred = draw(st.lists(yv, min_size=n, max_size=n))
    if ym == "zeros" and draw(st.booleans()):
        y_pred = [0] * n
    mode = draw(st.sampled_from(["callable", "dict", "dict"]))
    n_metrics = 1 if mode == "callable" else draw(st.integers(1, 3))
    names = draw(st.permutations(METRIC_NAMES))[:n_metrics]
    items = []
    for nm in names:
        key = draw(st.sampled_from(list(metric_keys)))
        avail = METRIC_PARAMS[key]
        k = draw(st.integers(1 if (force_params and avail) else 0, min(2, len(avail)))) if avail else 0
        pnames = draw(st.permutations(avail))[:k] if k else []
        params = {}
        for pn in pnames:
            if pn == "sample_weight":
                vals = draw(st.lists(weights, min_size=n, max_size=n))
            else:
                vals = draw(st.lists(st.integers(0, 5).map(float), min_size=n, max_size=n))
            params[pn] = {
                "values": vals,
                "kind": draw(st.sampled_from(["list", "ndarray", "series", "ndarray2d"])),
                "index": draw(gen.index_plan),
            }
        item = {"name": nm, "func": key, "params": params}
        unused = [pn for pn in avail if pn not in params]
        if unused and draw(st.integers(0, 4)) == 0:
            item["none_params"] = [unused[0]]
        items.append(item)
    case = {
        "n": n,
        "sf": {"cols": sf_cols, "names": list(sf_names), "kind": draw(st.sampled_from(gen.feature_kinds(n_sf))),
               "index": draw(gen.index_plan)},
        "cf": None if n_cf == 0 else {"cols": cf_cols, "names": list(cf_names),
                                      "kind": draw(st.sampled_from(gen.feature_kinds(n_cf))),
                                      "index": draw(gen.index_plan)},
        "y_true": y_true,
        "y_pred": y_pred,
        "yt_kind": draw(_Y_KINDS),
        "yp_kind": draw(_Y_KINDS),
        "yt_index": draw(gen.index_plan),
        "yp_index": draw(gen.index_plan),
        "mode": mode,
        "metrics": items,
    }
    rowk = ("ndarray_row", "nested_list")
    if (case["yt_kind"] in rowk) != (case["yp_kind"] in rowk):
        # the lengths of y_true and y_pred are compared before they are flattened: a row vector is accepted only
        # when both arrive as rows
        other = "yp_kind" if case["yt_kind"] in rowk else "yt_kind"
        case[other] = draw(st.sampled_from(rowk))
    if not allow_collisions and column_collision(case):
        # make names collision free by construction (no rejection): rename metrics to m0, m1, ...
        for i, it in enumerate(case["metrics"]):
            it["name"] = f"m{i}"
    return case


def internal_columns(case):
    """Column names MetricFrame creates in its internal table for this case (current naming scheme)."""
    names = ["y_true", "y_pred"]
    for it in case["metrics"]:
        nm = it["name"] if case["mode"] == "dict" else None
        for pn in it["params"]:
            names.append(f"{nm}_{pn}")
    return names


def column_collision(case):
    """True when two of MetricFrame's internal columns / feature names would coincide (finding D12)."""
    names = internal_columns(case)
    feats = effective_feature_names(case)
    allnames = names + feats
    return len(set(allnames)) != len(allnames)


def effective_feature_names(case):
    out = []
    for part, base in (("sf", "sensitive_feature_"), ("cf", "control_feature_")):
        spec = case.get(part)
        if not spec:
            continue
        kind = spec["kind"]
        if kind in ("dataframe", "dict", "dict_series", "series", "series_categorical", "dataframe_categorical"):
            out.extend(spec["names"])
        else:
            out.extend(f"{base}{i}" for i in range(len(spec["cols"])))
    return out


# ---- construction ----------------------------------------------------------------------------------


def build_metricframe_kwargs(case):
    sf_obj, _ = gen.wrap_features(case["sf"]["kind"], case["sf"]["cols"], case["sf"]["names"], case["sf"]["index"])
    kw = {
        "y_true": gen.wrap_vector(case["yt_kind"], case["y_true"], case["yt_index"], name="yt"),
        "y_pred": gen.wrap_vector(case["yp_kind"], case["y_pred"], case["yp_index"], name="yp"),
        "sensitive_features": sf_obj,
    }
    if case.get("cf"):
        cf_obj, _ = gen.wrap_features(case["cf"]["kind"], case["cf"]["cols"], case["cf"]["names"], case["cf"]["index"])
        kw["control_features"] = cf_obj
    funcs = {}
    sparams = {}
    for it in case["metrics"]:
        funcs[it["name"]] = metric_callable(it["func"])
        sparams[it["name"]] = {
            pn: gen.wrap_vector(p["kind"], p["values"], p["index"], name=pn) for pn, p in it["params"].items()
        }
        for pn in it.get("none_params", []):  # a parameter given as None counts as not supplied
            sparams[it["name"]][pn] = None
    if case["mode"] == "callable":
        it = case["metrics"][0]
        kw["metrics"] = funcs[it["name"]]
        if sparams[it["name"]]:
            kw["sample_params"] = sparams[it["name"]]
    else:
        kw["metrics"] = funcs
        sp = {k: v for k, v in sparams.items() if v}
        if sp:
            kw["sample_params"] = sp
    return kw


def norm(v):
    """Normalise a group value for comparison between the case and a pandas index entry."""
    if isinstance(v, (bool, np.bool_)):
        return ("b", bool(v))
    if isinstance(v, (int, float, np.integer, np.floating)):
        return ("n", float(v))
    return ("s", str(v))


def observed_levels(col):
    seen = []
    keys = set()
    for v in col:
        k = norm(v)
        if k not in keys:
            keys.add(k)
            seen.append(v)
    return seen


def cell_masks(cols):
    """dict: tuple(norm(level) per column) over the Cartesian product of observed levels -> bool mask."""
    n = len(cols[0])
    levels = [observed_levels(c) for c in cols]
    ncols = [[norm(v) for v in c] for c in cols]
    out = {}
    for combo in itertools.product(*levels):
        key = tuple(norm(v) for v in combo)
        mask = np.ones(n, dtype=bool)
        for j, k in enumerate(key):
            mask &= np.array([x == k for x in ncols[j]], dtype=bool)
        out[key] = mask
    return out


def ref_metric(item, case, mask):
    """The metric of ``item`` evaluated from first principles on the rows selected by mask."""
    f = metric_callable(item["func"])
    yt = np.asarray(case["y_true"])[mask]
    yp = np.asarray(case["y_pred"])[mask]
    kw = {pn: np.asarray(p["values"], dtype=float)[mask] for pn, p in item["params"].items()}
    return f(yt, yp, **kw)


def close(a, b, tol=1e-9, scale=None):
    """|a - b| <= tol * max(1, |a|, |b|); with ``scale`` given the tolerance is tol * scale instead (scale =
    magnitude of the operands the value was computed from - so that tiny-valued metrics are compared relatively)."""
    if a is None or b is None:
        return False
    try:
        fa, fb = float(a), float(b)
    except (TypeError, ValueError):
        return False
    if math.isnan(fa) or math.isnan(fb):
        return math.isnan(fa) and math.isnan(fb)
    if math.isinf(fa) or math.isinf(fb):
        return fa == fb
    if scale is not None:
        return abs(fa - fb) <= tol * scale
    return abs(fa - fb) <= tol * max(1.0, abs(fa), abs(fb))


def index_keys(index):
    """List of normalised tuple keys of a pandas (Multi)Index."""
    out = []
    for entry in index.tolist():
        if not isinstance(entry, tuple):
            entry = (entry,)
        out.append(tuple(norm(v) for v in entry))
    return out


def need(cond, msg):
    if not cond:
        raise PropertyViolation(msg)
