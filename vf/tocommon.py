"""Shared code of the ThresholdOptimizer properties C04 and C05.

* ``to_case``        Hypothesis strategy for a (dataset, configuration) case, plain JSON.
* ``exhaustive_cases`` every multiset of rows over 2 groups x 2 labels x 3 score levels up to a size.
* ``build`` / ``fit`` turn a case into X / y / sensitive_features, fit ThresholdOptimizer on a
  ``ScoreColumn`` pass-through estimator and return P(y_hat = 1) per training row.
* ``metric``         the five constraint metrics and five objectives from first principles on rows.
* ``group_points``   brute-force (constraint, objective) point of every thresholding of a group.
* ``ref_envelope``   brute-force upper concave envelope of a point set evaluated at given x values.
* ``ref_lp``         the same value as a linear program (scipy HiGHS), used to cross-check the envelope.

Nothing here imports fairlearn's trade-off / hull / interpolation code.
"""

from __future__ import annotations

import itertools
import math
from fractions import Fraction

import numpy as np
import pandas as pd
from hypothesis import strategies as st

from vf.learners import ScoreColumn, ScoreColumnMulti  # noqa: F401
from vf.runner import PropertyViolation

TOL = 1e-9
LP_TOL = 1e-6

SIMPLE = {
    "selection_rate_parity": "selection_rate",
    "demographic_parity": "selection_rate",
    "false_positive_rate_parity": "false_positive_rate",
    "false_negative_rate_parity": "false_negative_rate",
    "true_positive_rate_parity": "true_positive_rate",
    "true_negative_rate_parity": "true_negative_rate",
}
CONSTRAINTS = sorted(SIMPLE) + ["equalized_odds"]
OBJ_SIMPLE = ["accuracy_score", "balanced_accuracy_score", "selection_rate", "true_positive_rate",
              "true_negative_rate"]
OBJ_EO = ["accuracy_score", "balanced_accuracy_score"]
GRIDS = [1, 2, 3, 7, 10, 50, 1000]

SF_LABELS = {
    "str": ["a", "b", "c", "d", "e"],
    "str2": ["g_1", "g", "Z z", "x", "0"],
    "int": [0, 1, 2, 3, 4],
    "int2": [10, -3, 7, 2, 5],
}


# ---- first-principles metrics -----------------------------------------------------------------------


def _sum(vals, exact):
    return sum(vals, Fraction(0)) if exact else math.fsum(vals)


def metric(name, ys, ps, exact=False):
    """Expected value of a confusion-matrix metric on rows with labels ``ys`` when row i is predicted
    positive with probability ``ps[i]``.  ``exact=True``: ps are 0/1 ints, the result is a Fraction."""
    n = len(ys)
    pos = [p for y, p in zip(ys, ps) if y == 1]
    neg = [p for y, p in zip(ys, ps) if y == 0]
    if not pos or not neg:
        raise ValueError("group without both labels")
    one = Fraction(1) if exact else 1.0
    half = Fraction(1, 2) if exact else 0.5
    tpr = _sum(pos, exact) / len(pos)  # P(yhat=1 | y=1)
    fpr = _sum(neg, exact) / len(neg)  # P(yhat=1 | y=0)
    if name == "selection_rate":
        return _sum(list(ps), exact) / n
    if name == "true_positive_rate":
        return tpr
    if name == "false_positive_rate":
        return fpr
    if name == "false_negative_rate":
        return one - tpr
    if name == "true_negative_rate":
        return one - fpr
    if name == "accuracy_score":
        return (_sum(pos, exact) + _sum([one - p for p in neg], exact)) / n
    if name == "balanced_accuracy_score":
        return half * tpr + half * (one - fpr)
    raise ValueError(name)


def group_points(ys, ss, flip, x_metric, y_metric):
    """Brute force: the exact (x, y) point of every thresholding of one group's scores.

    Thresholdings: 'score > c' for c = +inf, every cut between two adjacent distinct score levels, and
    -inf; with ``flip`` also 'score < c' for the same cuts.  Returns a list of
    (Fraction x, Fraction y, operator, number of levels selected)."""
    levels = sorted(set(ss))
    out = []
    for j in range(len(levels) + 1):
        top = set(levels[len(levels) - j:])  # 'score > cut' selects the j highest levels
        pred = [1 if s in top else 0 for s in ss]
        out.append((metric(x_metric, ys, pred, True), metric(y_metric, ys, pred, True), ">", j))
        if flip:
            bottom = set(levels[:j])  # 'score < cut' selects the j lowest levels
            pred = [1 if s in bottom else 0 for s in ss]
            out.append((metric(x_metric, ys, pred, True), metric(y_metric, ys, pred, True), "<", j))
    return out


def _lcm(vals):
    d = 1
    for v in vals:
        d = d * v // math.gcd(d, v)
    return d


def ref_envelope(points, xs):
    """Upper concave envelope of ``points`` [(Fraction x, Fraction y), ...] at each Fraction in ``xs``:
    the maximum over points lying exactly at x and over all pairs of points strictly straddling x of
    the linear interpolation.  Position tests are exact (integers); values are floats.
    -inf where x is outside the points' x range."""
    pts = sorted({(p[0], p[1]) for p in points})
    D = _lcm([p[0].denominator for p in pts] + [x.denominator for x in xs])
    PX = np.array([int(p[0] * D) for p in pts], dtype=np.int64)
    PY = np.array([float(p[1]) for p in pts])
    XS = np.array([int(x * D) for x in xs], dtype=np.int64)
    best = np.full(len(XS), -np.inf)
    for a in range(len(pts)):
        best = np.where(XS == PX[a], np.maximum(best, PY[a]), best)
    for a in range(len(pts)):
        for b in range(len(pts)):
            if PX[a] < PX[b]:
                mask = (PX[a] < XS) & (XS < PX[b])
                if mask.any():
                    t = (XS - PX[a]) / float(PX[b] - PX[a])
                    val = PY[a] + t * (PY[b] - PY[a])
                    best = np.where(mask, np.maximum(best, val), best)
    return best


def ref_lp(points, x):
    """max sum_j w_j y_j  s.t.  sum_j w_j x_j = x, sum_j w_j = 1, w >= 0  (HiGHS)."""
    from scipy.optimize import linprog

    pts = sorted({(p[0], p[1]) for p in points})
    px = np.array([float(p[0]) for p in pts])
    py = np.array([float(p[1]) for p in pts])
    res = linprog(-py, A_eq=np.vstack([px, np.ones_like(px)]), b_eq=[float(x), 1.0],
                  bounds=[(0, None)] * len(pts), method="highs")
    if res.status != 0:
        raise RuntimeError(f"reference LP not solved: {res.message}")
    return -float(res.fun)


# ---- case -> objects -----------------------------------------------------------------------------------


def sf_value(case, g):
    return SF_LABELS[case.get("sf_kind", "str")][g]


def build(case):
    rows = case["rows"]
    gs = [r[0] for r in rows]
    ys = [int(r[1]) for r in rows]
    ss = [float(r[2]) for r in rows]
    sfv = [sf_value(case, g) for g in gs]
    xk = case.get("x_kind", "ndarray")
    X = np.asarray(ss, dtype=float).reshape(-1, 1)
    if xk == "frame":
        X = pd.DataFrame({"score": ss})
    yk = case.get("y_kind", "list")
    # pandas objects may carry names that coincide with the optimizer's internal column names (score, label, ...)
    y = ys if yk == "list" else np.asarray(ys) if yk == "ndarray" else pd.Series(ys, name=case.get("y_name"))
    sk = case.get("sf_container", "list")
    if sk == "frame":
        sf = pd.DataFrame({case.get("sf_name") or "sf": sfv})
    else:
        sf = sfv if sk == "list" else np.asarray(sfv) if sk == "ndarray" else pd.Series(sfv, name=case.get("sf_name"))
    return X, y, sf, gs, ys, ss


def _score_dtype(case, scores):
    """Integer-valued non-negative scores may be handed over in an integer dtype (a hard classifier's uint8 / int
    predictions); None otherwise."""
    if case.get("mode") == "adjacent32":
        return "float32"
    dt = case.get("score_dtype")
    if case.get("mode") == "bytes":
        return dt if dt in ("uint8", "uint16", "int64") else "uint8"
    if dt and all(float(v).is_integer() and 0 <= v <= 100 for v in scores):
        return dt
    return None


def fit(case):
    """Fit on the case; returns (fitted optimizer, p) with p[i] = P(y_hat = 1) of training row i."""
    from fairlearn.postprocessing import ThresholdOptimizer

    X, y, sf, gs, ys, ss = build(case)
    pm = case.get("pm", "predict")
    # only the method the optimizer is told to use returns the generated scores; the estimator's other
    # prediction methods answer on a reversed scale, so using another method at fit or predict time shows
    scorer = ScoreColumnMulti(primary="predict_proba" if pm == "auto" else pm, out_dtype=_score_dtype(case, ss))
    if case.get("pipeline"):
        # the base estimator nested in a scikit-learn Pipeline behind an identity transformer
        from sklearn.pipeline import Pipeline
        from sklearn.preprocessing import FunctionTransformer

        scorer = Pipeline([("identity", FunctionTransformer()), ("scorer", scorer)])
        if case.get("prefit", True):
            scorer.fit(X, ys)
    to = ThresholdOptimizer(
        estimator=scorer,
        constraints=case["constraint"],
        objective=case["objective"],
        grid_size=case["grid"],
        flip=case["flip"],
        prefit=case.get("prefit", True),
        predict_method=pm,
    )
    to.fit(X, y, sensitive_features=sf)
    pmf = to._pmf_predict(X, sensitive_features=sf)
    pmf = np.asarray(pmf)
    n = len(ys)
    if pmf.shape != (n, 2) or pmf.dtype.kind != "f":
        raise PropertyViolation(f"_pmf_predict returned shape {pmf.shape} dtype {pmf.dtype}, expected ({n}, 2) floats")
    if not np.all(np.isfinite(pmf)):
        raise PropertyViolation(f"_pmf_predict returned non-finite probabilities: {pmf.tolist()}")
    if pmf.min() < -TOL or pmf.max() > 1 + TOL:
        raise PropertyViolation(f"_pmf_predict probabilities outside [0,1]: {pmf.tolist()}")
    if np.abs(pmf.sum(axis=1) - 1).max() > TOL:
        raise PropertyViolation(f"_pmf_predict rows do not sum to 1: {pmf.tolist()}")
    return to, pmf[:, 1].astype(float).tolist()


def by_group(case):
    """{group index: (labels, scores, row positions)} in order of group index."""
    out = {}
    for i, (g, y, s) in enumerate(case["rows"]):
        ys, ss, idx = out.setdefault(g, ([], [], []))
        ys.append(int(y))
        ss.append(float(s))
        idx.append(i)
    return dict(sorted(out.items()))


def structure_tags(case, to):
    """Coverage classes (never part of the verdict).  The *_used classes read the fitted
    interpolation_dict, the others come from the generated rows alone."""
    tags = []
    groups = by_group(case)
    tie = False
    for ys, ss, _ in groups.values():
        pos = {s for y, s in zip(ys, ss) if y == 1}
        neg = {s for y, s in zip(ys, ss) if y == 0}
        tie = tie or bool(pos & neg)
    if tie:
        tags.append("tie_pos_neg")
    if case.get("mode") in ("adjacent", "subnormal", "adjacent32"):
        tags.append("adjacent_float_scores")
    if case.get("sf_container") in ("series", "frame") and case.get("sf_name") in ("score", "label", "sensitive_feature"):
        tags.append("feature_named_like_internal_column")
    interior = vertex = pign = flip_used = False
    try:
        for b in to.interpolated_thresholder_.interpolation_dict.values():
            p0, p1 = float(b.p0), float(b.p1)
            interior = interior or (p0 > 0 and p1 > 0)
            vertex = vertex or p0 == 0 or p1 == 0
            if "p_ignore" in b and float(b.p_ignore) > 0:
                pign = True
            for p, op in ((p0, b.operation0), (p1, b.operation1)):
                if p > 0 and op.operator == "<":
                    flip_used = True
    except Exception:  # noqa: BLE001 - classes only
        pass
    if interior:
        tags.append("interior_segment")
    if vertex:
        tags.append("grid_at_vertex")
    if pign:
        tags.append("p_ignore>0")
    if flip_used:
        tags.append("flip_used")
    if tie or interior:
        tags.append("nt")
    return tags


def xy_metrics(case):
    if case["constraint"] == "equalized_odds":
        return "false_positive_rate", "true_positive_rate"
    return SIMPLE[case["constraint"]], case["objective"]


def has_vertical(points):
    """Two thresholdings with the same extreme x but different y (a vertical hull segment)."""
    xs = [p[0] for p in points]
    for ext in (min(xs), max(xs)):
        if len({p[1] for p in points if p[0] == ext}) > 1:
            return True
    return False


def _ulps32(base, k):
    v = np.float32(base)
    for _ in range(k):
        v = np.nextafter(v, np.float32(np.inf))
    return float(v)


def _ulps(base, k):
    v = float(base)
    for _ in range(k):
        v = float(np.nextafter(v, np.inf))
    return v


# ---- strategies ----------------------------------------------------------------------------------------

_SCORES = {
    "binary": st.sampled_from([0.0, 1.0]),
    "thirds": st.integers(0, 3).map(lambda k: k / 3),
    "thirds_wide": st.integers(-3, 6).map(lambda k: k / 3),
    "tenths": st.integers(0, 10).map(lambda k: round(k / 10, 1)),
    "real": st.floats(-3, 3, allow_nan=False).map(lambda v: round(v, 3) + 0.0),
    "real01": st.floats(0, 1, allow_nan=False).map(lambda v: round(v, 3) + 0.0),
    # distinct but very close levels (1e-7 apart, also at magnitude 1000): exactly representable midpoints
    # exist, so every cut between them is a legitimate thresholding
    "near": st.tuples(st.sampled_from([0.0, 0.5, 1.0]), st.integers(0, 3)).map(lambda t: t[0] + t[1] * 1e-7),
    "small_ints": st.integers(0, 3).map(float),
    "bytes": st.sampled_from([0, 1, 100, 127, 128, 200, 254, 255]).map(float),  # a 0..255 risk score (uint8 / int64 column)
    # neighbouring floating point numbers (0.3 and 0.1 + 0.2 are such a pair): the midpoint of two levels rounds to one
    # of them, so a cut between them exists only as '> lower' / '< upper'; also subnormal levels k * 5e-324
    "adjacent": st.tuples(st.sampled_from([0.3, 1.0, 0.5, 100.0, 0.1]), st.integers(0, 3)).map(lambda t: _ulps(t[0], t[1])),
    "subnormal": st.integers(0, 4).map(lambda k: k * 5e-324),
    # neighbouring float32 numbers, handed to the optimizer as a float32 score column (a torch / lightgbm style scorer)
    "adjacent32": st.tuples(st.sampled_from([0.3, 1.0, 0.5, 100.0, 0.1, 0.7]), st.integers(0, 3)).map(lambda t: _ulps32(t[0], t[1])),
    "near_large": st.tuples(st.sampled_from([1000.0, 1000.5]), st.integers(0, 3)).map(lambda t: t[0] + t[1] * 1e-6),
}


@st.composite
def config(draw, accuracy_bias=False):
    c = draw(st.sampled_from(CONSTRAINTS + ["equalized_odds"] * 2))  # equalized odds on ~1/3 of the cases
    simple = OBJ_SIMPLE + (OBJ_EO * 2 if accuracy_bias else [])
    return {
        "constraint": c,
        "objective": draw(st.sampled_from(OBJ_EO if c == "equalized_odds" else simple)),
        "flip": draw(st.booleans()),
        "grid": draw(st.sampled_from(GRIDS)),
        "prefit": draw(st.booleans()),
        "pm": draw(st.sampled_from(["predict", "decision_function", "auto", "predict_proba"])),
        "score_dtype": draw(st.sampled_from([None, None, "uint8", "int64", "uint16", "float32"])),
        "pipeline": draw(st.integers(0, 4)) == 0,
    }


@st.composite
def to_case(draw, max_groups=5, max_rows=8, accuracy_bias=False):
    """Rows are [group index, label, score].  Per group the scores are either independent of the label,
    informative (positives get the larger of two draws, negatives the smaller) or anti-informative (the
    reverse, so that flipped thresholdings pay off)."""
    k = draw(st.sampled_from([v for v in (2, 2, 2, 3, 3, 4, 5) if v <= max_groups]))
    mode = draw(st.sampled_from(sorted(_SCORES)))
    rows = []
    for g in range(k):
        m = draw(st.one_of(st.integers(2, 4), st.integers(2, max_rows)))
        labels = [0, 1] + draw(st.lists(st.integers(0, 1), min_size=m - 2, max_size=m - 2))
        scores = draw(st.lists(_SCORES[mode], min_size=m, max_size=m))
        direction = draw(st.sampled_from(["none", "pos", "pos", "pos", "neg"]))
        if direction != "none":
            other = draw(st.lists(_SCORES[mode], min_size=m, max_size=m))
            for i, y in enumerate(labels):
                hi, lo = max(scores[i], other[i]), min(scores[i], other[i])
                scores[i] = hi if (y == 1) == (direction == "pos") else lo
        rows.extend([g, y, s] for y, s in zip(labels, scores))
    if draw(st.integers(0, 19)) == 0:
        # two groups that agree row by row except that some scores -1.0 are -2.0 in the twin (hash(-1.0) == hash(-2.0)
        # in Python): whatever is remembered about one group must not be used for the other
        m = draw(st.integers(3, 8))
        labels = [0, 1] + draw(st.lists(st.integers(0, 1), min_size=m - 2, max_size=m - 2))
        sc = draw(st.lists(st.sampled_from([-1.0, -1.5, 0.0, -3.0, -1.0]), min_size=m, max_size=m))
        sc[draw(st.integers(0, m - 1))] = -1.0
        rows = [[0, y, s] for y, s in zip(labels, sc)] + [[1, y, (-2.0 if s == -1.0 else s)] for y, s in zip(labels, sc)]
        mode = "hash_twins"
    perm = draw(st.permutations(range(len(rows))))
    case = {"rows": [rows[i] for i in perm], "mode": mode}
    case.update(draw(config(accuracy_bias)))
    case["sf_kind"] = draw(st.sampled_from(sorted(SF_LABELS)))
    case["sf_container"] = draw(st.sampled_from(["list", "ndarray", "series", "series", "frame"]))
    case["y_kind"] = draw(st.sampled_from(["list", "ndarray", "series"]))
    case["sf_name"] = draw(st.sampled_from([None, "s", "score", "label", "sensitive_feature", "score"]))
    case["y_name"] = draw(st.sampled_from([None, "y", "label", "score"]))
    case["x_kind"] = draw(st.sampled_from(["ndarray", "frame"]))
    case["lp"] = draw(st.integers(0, 999)) % 10
    return case


EXH_LEVELS = [0.0, 0.5, 1.0]
EXH_GRIDS = [1, 4, 1000]


def exhaustive_datasets(max_size):
    """Every multiset of rows over 2 groups x 2 labels x 3 score levels with total size <= max_size in
    which both groups contain both labels (so size >= 4).  Yields lists of [g, y, s]."""
    cells = [(0, 0), (0, 1), (1, 0), (1, 1)]
    for total in range(4, max_size + 1):
        for sizes in itertools.product(range(1, total - 2), repeat=4):
            if sum(sizes) != total:
                continue
            per_cell = [list(itertools.combinations_with_replacement(EXH_LEVELS, m)) for m in sizes]
            for combo in itertools.product(*per_cell):
                rows = []
                for (g, y), lv in zip(cells, combo):
                    rows.extend([g, y, s] for s in lv)
                yield rows


def exhaustive_cases(max_size, constraints=None):
    for rows in exhaustive_datasets(max_size):
        # a fixed interleaving so the rows are not sorted by group
        order = sorted(range(len(rows)), key=lambda i: ((i * 7 + 3) % 11, i))
        rows_i = [rows[i] for i in order]
        for c in constraints or CONSTRAINTS:
            for flip in (False, True):
                for grid in EXH_GRIDS:
                    yield {"rows": rows_i, "constraint": c, "objective": "accuracy_score", "flip": flip,
                           "grid": grid, "prefit": True, "pm": "predict", "sf_kind": "str",
                           "sf_container": "list", "y_kind": "list", "x_kind": "ndarray", "lp": 1}
