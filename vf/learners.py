"""Exact cost-sensitive learners over enumerable hypothesis classes, and a pass-through scorer.

H = all functions of one categorical column (levels 0..L-1, L <= 5), so |H| = 2^L <= 32 classifiers.
``ExactTable.fit`` returns an exact minimiser of the weighted 0/1 error over H (weighted majority per
level); ``ExactTableRegressor.fit`` an exact minimiser of the weighted square loss over all real-valued
functions of the level (weighted mean per level).
"""

from __future__ import annotations

import itertools

import numpy as np
import pandas as pd
from sklearn.base import BaseEstimator, ClassifierMixin, RegressorMixin


def _levels(X):
    if isinstance(X, pd.DataFrame):
        col = X.iloc[:, 0].to_numpy()
    else:
        col = np.asarray(X)
        if col.ndim == 2:
            col = col[:, 0]
    return col.astype(int)


class ExactTable(ClassifierMixin, BaseEstimator):
    def __init__(self, n_levels=5, tie=0):
        self.n_levels = n_levels
        self.tie = tie

    def fit(self, X, y, sample_weight=None):
        lv = _levels(X)
        y = np.asarray(y).astype(int).reshape(-1)
        w = np.ones(len(y)) if sample_weight is None else np.asarray(sample_weight, dtype=float).reshape(-1)
        table = np.full(self.n_levels, int(self.tie))
        for level in range(self.n_levels):
            m = lv == level
            w1 = w[m & (y == 1)].sum()
            w0 = w[m & (y == 0)].sum()
            if w1 > w0:
                table[level] = 1
            elif w0 > w1:
                table[level] = 0
        self.table_ = table
        self.classes_ = np.array([0, 1])
        return self

    def predict(self, X):
        return self.table_[_levels(X)]

    def predict_proba(self, X):
        p = self.predict(X).astype(float)
        return np.column_stack([1 - p, p])


class ExactTableRegressor(RegressorMixin, BaseEstimator):
    def __init__(self, n_levels=5):
        self.n_levels = n_levels

    def fit(self, X, y, sample_weight=None):
        lv = _levels(X)
        y = np.asarray(y, dtype=float).reshape(-1)
        w = np.ones(len(y)) if sample_weight is None else np.asarray(sample_weight, dtype=float).reshape(-1)
        table = np.zeros(self.n_levels)
        for level in range(self.n_levels):
            m = lv == level
            if w[m].sum() > 0:
                table[level] = float(np.sum(w[m] * y[m]) / w[m].sum())
            elif m.any():
                table[level] = float(np.mean(y[m]))
        self.table_ = table
        return self

    def predict(self, X):
        return self.table_[_levels(X)]


def all_tables(n_levels_present):
    """Every classifier of H restricted to the levels that occur: tuples in {0,1}^L."""
    return list(itertools.product((0, 1), repeat=n_levels_present))


class ScoreColumn(BaseEstimator):
    """Estimator whose predictions are column ``col`` of X: ThresholdOptimizer then sees exactly the
    generated scores. Works with prefit=True (reports itself fitted) and prefit=False."""

    def __init__(self, col=0):
        self.col = col

    def fit(self, X, y=None, **kwargs):
        self.fitted_ = True
        return self

    def __sklearn_is_fitted__(self):
        return True

    def _col(self, X):
        if isinstance(X, pd.DataFrame):
            return X.iloc[:, self.col].to_numpy(dtype=float)
        return np.asarray(X, dtype=float)[:, self.col]

    def predict(self, X):
        return self._col(X)

    def decision_function(self, X):
        return self._col(X)

    def predict_proba(self, X):
        s = self._col(X)
        return np.column_stack([1 - s, s])


class ScoreColumnMulti(BaseEstimator):
    """Like ScoreColumn, but only the ``primary`` method returns the raw column; the other prediction methods
    return it on a different, order-reversing scale (1 - x).  ThresholdOptimizer must therefore use, at fit
    *and* at predict time, exactly the method it was told to use ("auto" resolves to predict_proba)."""

    def __init__(self, primary="predict", col=0, out_dtype=None):
        self.primary = primary
        self.col = col
        self.out_dtype = out_dtype  # e.g. "uint8": hard / integer-valued scores in a narrow dtype

    def fit(self, X, y=None, **kwargs):
        self.fitted_ = True
        return self

    def __sklearn_is_fitted__(self):
        return True

    def _col(self, X, which):
        if isinstance(X, pd.DataFrame):
            s = X.iloc[:, self.col].to_numpy(dtype=float)
        else:
            s = np.asarray(X, dtype=float)[:, self.col]
        if which != self.primary:
            return 1.0 - s
        if self.out_dtype and which != "predict_proba":
            return s.astype(self.out_dtype)
        return s

    def predict(self, X):
        return self._col(X, "predict")

    def decision_function(self, X):
        return self._col(X, "decision_function")

    def predict_proba(self, X):
        s = self._col(X, "predict_proba")
        out = np.column_stack([1 - s, s])
        if self.out_dtype == "float32":  # a float32 probability table (torch / lightgbm style)
            out = out.astype(np.float32)
        return out


class PredictOnlyColumn(BaseEstimator):
    """Column pass-through offering ``predict`` only (so predict_method="auto" must resolve to predict)."""

    def __init__(self, col=0):
        self.col = col

    def fit(self, X, y=None, **kwargs):
        self.fitted_ = True
        return self

    def __sklearn_is_fitted__(self):
        return True

    def predict(self, X):
        if isinstance(X, pd.DataFrame):
            return X.iloc[:, self.col].to_numpy(dtype=float)
        return np.asarray(X, dtype=float)[:, self.col]


class ExactTableW(ExactTable):
    """ExactTable whose fit takes its weights under the name ``w`` (for ``sample_weight_name='w'``)."""

    def fit(self, X, y, w=None):  # noqa: D102
        return ExactTable.fit(self, X, y, sample_weight=w)


class ShiftScorer(BaseEstimator):
    """A scorer whose predictions depend on the data it was fitted on: score = x - mean(training x).
    (A stale base estimator kept from an earlier fit therefore shows in the predictions.)"""

    def __init__(self, col=0):
        self.col = col

    def _raw(self, X):
        if isinstance(X, pd.DataFrame):
            return X.iloc[:, self.col].to_numpy(dtype=float)
        return np.asarray(X, dtype=float)[:, self.col]

    def fit(self, X, y=None, **kwargs):
        self.offset_ = float(np.mean(self._raw(X)))
        return self

    def predict(self, X):
        return self._raw(X) - self.offset_


class ExactTableNested(ExactTable):
    """ExactTable that keeps its fitted table inside a nested container created at construction and updated in
    place by fit - like a Pipeline or another wrapping estimator, its fitted state is only separated from that of
    a copy by a *deep* copy."""

    def __init__(self, n_levels=5, tie=0):
        super().__init__(n_levels=n_levels, tie=tie)
        self.store = {"table": None}

    def fit(self, X, y, sample_weight=None):
        ExactTable.fit(self, X, y, sample_weight=sample_weight)
        self.store["table"] = self.table_.copy()
        del self.table_
        return self

    def predict(self, X):
        from vf.learners import _levels as lv

        return self.store["table"][lv(X)]
